"""Checks decided by spec/ClientConn.tla: C13 (client calls always terminate with a faithful response or a clear
error) and C11 (nothing is sent before the certificate is verified).

  M   TLC: NothingBeforeVerify, ChangedGetsNothing, PromptOnClose, Faithful, SegIndep (invariants) and the liveness
      Terminates under weak fairness, over ~40 server scripts (generated with their real lengths) x 5 pin situations
      x {get, upload} x every segmentation at the scripts' cut points x close / reset / stall.
  B1  every transition of the state graph is executed on the real GeminiClient._get_single / upload in virtual
      time (create_connection hands the protocol a fake transport; the pin store is a real SQLite file); projection =
      request bytes that left the client, what the caller got, client closed, connection lost.
      + byte-level oracle on every returned response (status, meta, body = bytes after the first CRLF, decoded with
      the declared charset for text) and promptness (virtual time elapsed when the peer has closed).
  B2  random streams from a response grammar and its corruptions (every codec Python knows + unknown labels,
      random cuts, every end kind) judged by the byte-level oracle and the spec's Expected() through TLC.
"""
import codecs
import json
import os
import random
import shutil
import sys
import tempfile

sys.path.insert(0, os.path.dirname(os.path.dirname(os.path.abspath(__file__))))
from vf import evidence, replay, tlc  # noqa: E402
from vf.clientconn import (MIB10, TIMEOUT, ClientHarness, caller_class, expected_class, model_projection, script, standard_scripts,  # noqa: E402
                           write_mc_module)

OWN = {"C13": {"PromptOnClose", "Faithful", "SegIndep", "Terminates", "ByteFaithful", "Prompt", "Capped"},
       "C11": {"NothingBeforeVerify", "ChangedGetsNothing", "RequestIntact"}}
DEVS = {"C13": {"DevLookupErrorEscapes": ["PromptOnClose", "SegIndep"], "DevNonSuccessAtClose": ["SegIndep"]},
        "C11": {"DevSendInConnectionMade": ["NothingBeforeVerify", "ChangedGetsNothing"],
                "DevUnreadableSkipsCheck": ["ChangedGetsNothing"]}}


def plain(x):
    if isinstance(x, dict):
        return {k: plain(v) for k, v in x.items()}
    if isinstance(x, tuple):
        return [plain(v) for v in x]
    if isinstance(x, frozenset):
        return sorted(plain(v) for v in x)
    return x


def expected_body(scr):
    """What a faithful client returns for a 2x script that ended cleanly: bytes after the first CRLF, decoded for text."""
    rec = scr["rec"]
    raw = scr["data"][:rec["sendLen"]]
    head, sep, body = raw.partition(b"\r\n")
    meta = head.split(b" ", 1)[1].decode("utf-8") if b" " in head else ""
    mime = meta.split(";")[0].strip().lower()
    if mime.startswith("text/") or mime == "":
        cs = "utf-8"
        for part in meta.split(";")[1:]:
            k, _, v = part.strip().partition("=")
            if k.strip().lower() == "charset":
                cs = v.strip().strip("\"'")
        return body.decode(cs), meta
    return body, meta


def judge_formulas(obs_seq, model_seq, scr, tofu, h, labels=None):
    """Evaluate the property formulas on the *observed* execution (observation-level): returns set of falsified names."""
    bad = set()
    rec = scr["rec"]
    for k_, o in enumerate(obs_seq):
        # before the Verify step the caller cannot have been told anything yet (PromptOnClose speaks of verified calls)
        verified = tofu == "off" or labels is None or any(a == "Verify" for a, _ in labels[:k_])
        if o["sentReq"] and tofu in ("changed", "unreadable"):
            bad.add("ChangedGetsNothing")
            bad.add("NothingBeforeVerify")
        if tofu in ("changed", "unreadable") and o["caller"] == "response":
            bad.add("ChangedGetsNothing")
        if o["lost"] and o["caller"] == "waiting" and tofu not in ("changed", "unreadable") and verified:
            bad.add("PromptOnClose")
    return bad


def main(pid, rep=None, finish=True):
    rep = rep or evidence.Report(pid, "model_checking")
    thorough = rep.tier == "thorough"
    rnd = random.Random(rep.seed * 48271 + 11)
    own = OWN[pid]
    d = tlc.spec_workdir()
    try:
        scripts = standard_scripts(big=True)
        by_rec = {json.dumps(plain(s["rec"]), sort_keys=True): s for s in scripts}
        write_mc_module(scripts, os.path.join(d, "MC_ClientConn_gen.tla"))
        r = tlc.run("MC_ClientConn_gen", "MC_ClientConn.cfg", spec_dir=d, timeout=900, coverage=True)
        rep.tlc("MC_ClientConn(design, incl. liveness Terminates)", r)
        if not r.ok:
            raise tlc.TLCError("design variant of ClientConn violates %s" % r.violated)
        for a in ("Verify", "Rx", "PeerEnds", "LostAfterClose", "Deliver", "Deadline"):
            if r.coverage.get(a, (0, 0))[1] == 0:
                raise tlc.TLCError("vacuity: action %s never taken" % a)
        st = []
        for dev, caught, violated in tlc.expect_caught("MC_ClientConn_gen", "MC_ClientConn.cfg", DEVS[pid], spec_dir=d, timeout=600):
            st.append({"deviation": dev, "caught_by": caught})
            if caught is None:
                raise tlc.TLCError("self-test: %s not caught (%s)" % (dev, violated))
        rep.set("deviation_selftests", st)
        # ---- B1 ---------------------------------------------------------------------------------------------------
        path = tlc.cfg_variant("MC_ClientConn.cfg", {}, spec_dir=d, drop=("INVARIANT", "PROPERTY"))
        try:
            gr, g = tlc.dump_graph("MC_ClientConn_gen", path, spec_dir=d, timeout=900)
        finally:
            shutil.rmtree(os.path.dirname(path), ignore_errors=True)
        rep.tlc("replay-graph ClientConn", gr)
        n = 0
        per_action = {}
        for init, labs, lab, u, v in replay.edge_tests(g):
            cfg = plain(g.nodes[init]["cfg"])
            scr = by_rec[json.dumps(cfg["sc"], sort_keys=True)]
            big = scr["rec"]["sendLen"] > 1000000
            if big and not thorough and n % 3:
                # the 10 MiB scripts are slow: a third of their edges in the quick tier
                n += 1
                continue
            labels = replay.parse_labels(labs + [lab])
            h = ClientHarness(scr, cfg["tofu"], cfg["ep"], seed=rep.seed, verify_ssl=(n % 3 == 1), hold_verify=True)
            obs_seq = [h.project()]
            err = None
            try:
                for a, args in labels:
                    obs_seq.append(h.do(a, *args))
            except Exception as e:  # noqa: BLE001
                err = repr(e)
            want = model_projection(plain(g.nodes[v]))
            got = obs_seq[-1] if err is None else {"error": err}
            n += 1
            per_action[labels[-1][0]] = per_action.get(labels[-1][0], 0) + 1
            # byte-level oracles -------------------------------------------------------------------------------
            extra_bad = set()
            detail = ""
            if err is None:
                if got["sentReq"]:
                    sent = bytes(h.tr.wire)
                    if cfg["ep"] == "get":
                        ok = sent == (h.url + "\r\n").encode()
                    else:
                        ok = sent.startswith(b"titan://pinned.ex/up/file.gmi;size=%d;" % len(h.content)) and sent.endswith(b"\r\n" + h.content) \
                            and b"token=TOKEN-SECRET" in sent
                    if not ok:
                        extra_bad.add("RequestIntact")
                        detail = "request on the wire: %r" % sent[:80]
                if got["caller"] == "response":
                    resp = h.task.result()
                    rec = scr["rec"]
                    if not (10 <= resp.status <= 69) or resp.status != rec["status"]:
                        extra_bad.add("ByteFaithful")
                        detail = "status %r vs script %r" % (resp.status, rec["status"])
                    elif 20 <= resp.status <= 29:
                        try:
                            eb, meta = expected_body(scr)
                            if resp.body != eb and not (resp.body in (None, "", b"") and eb in ("", b"")):
                                extra_bad.add("ByteFaithful")
                                detail = "body %r != bytes after CRLF %r" % (str(resp.body)[:40], str(eb)[:40])
                            if resp.meta != meta:
                                extra_bad.add("ByteFaithful")
                                detail = "meta %r != %r" % (resp.meta, meta)
                        except (UnicodeDecodeError, LookupError):
                            extra_bad.add("ByteFaithful")
                            detail = "a response was returned although the body cannot be decoded with the declared charset"
                    elif resp.body not in (None, "", b""):
                        extra_bad.add("ByteFaithful")
                        detail = "body present on status %d" % resp.status
                # promptness: once the peer has closed (lost) the call is over without waiting for the timeout
                if got["lost"] and got["caller"] != "waiting" and got["caller"] != "error:Timeout" and h.elapsed() >= TIMEOUT \
                        and "Deadline" not in [a for a, _ in labels]:
                    extra_bad.add("Prompt")
                    detail = "virtual time %.1fs elapsed" % h.elapsed()
                rec_ = scr["rec"]
                got_body = h.rx - (rec_["hdrLen"] + 2) if (rec_["crlf"] and h.rx >= rec_["hdrLen"] + 2) else h.rx
                if got_body > MIB10 and not got["cliClosed"]:
                    extra_bad.add("Capped")
                    detail = "%d bytes beyond the header buffered, connection still open" % got_body
                if h.pins() != h.pins_before and cfg["tofu"] in ("changed", "unreadable", "match"):
                    extra_bad.add("ChangedGetsNothing")
                    detail = "pins changed: %s -> %s" % (h.pins_before, h.pins())
            h.close()
            mismatch = got != want
            if mismatch or extra_bad:
                bad = judge_formulas([o for o in obs_seq], None, scr, cfg["tofu"], h, labels) | extra_bad
                # a caller outcome outside the script's Expected set is SegIndep / Faithful territory
                if err is None and mismatch and caller_class(got["caller"]) != caller_class(want["caller"]) and got["caller"] != "waiting":
                    bad.add("SegIndep")
                if err is None and mismatch and got["caller"] == "waiting" and want["caller"] != "waiting" and got["lost"] and \
                        (cfg["tofu"] == "off" or any(a == "Verify" for a, _ in labels)):
                    bad.add("PromptOnClose")
                mine = sorted(bad & own)
                desc = "script=%s tofu=%s ep=%s actions=%s: real %s, model %s %s" % (
                    scr["name"], cfg["tofu"], cfg["ep"], labs + [lab], got, want, detail)
                if mine:
                    rep.violation({"formula": mine[0], "script": scr["name"], "tofu": cfg["tofu"], "ep": cfg["ep"]},
                                  "%s falsified: %s" % (mine, desc), {"labels": labs + [lab], "obs": obs_seq})
                else:
                    rep.drifted("client departs from the model (other formulas: %s): %s" % (sorted(bad) or "none", desc))
            elif n % 499 == 0:
                rep.sample({"script": scr["name"], "tofu": cfg["tofu"], "ep": cfg["ep"], "actions": labs + [lab], "observed": got})
        rep.add("edges_replayed", n)
        rep.add("traces_validated_against_impl", n)
        rep.set("replayed_per_action", per_action)
        # ---- B2: random grammar streams -----------------------------------------------------------------------------
        b2(pid, rep, rnd, own, 3000 if thorough else 500, d)
        decode_cost(pid, rep, rnd, own, thorough)
        live_nonsuccess(pid, rep, rnd, own, thorough)
        b2_traces(pid, rep, rnd, own, 2000 if thorough else 400)
        b2_traces(pid, rep, rnd, own, 600 if thorough else 150, overlap=True)
        rep.assume("create_connection is served by a fake transport obeying the asyncio contract; TLS itself is exercised by the live checks")
        rep.assume("the pin store is a real SQLite file; certificates are supplied as DER through the transport's ssl_object")
        rep.set("exhaustive", False)
        if finish:
            sys.exit(rep.finish())
        return
    except tlc.TLCError as e:
        evidence.machinery_failure(pid, e)
    finally:
        shutil.rmtree(d, ignore_errors=True)


CODECS = ["utf-8", "ascii", "latin-1", "iso-8859-1", "iso-8859-15", "cp1252", "utf-16", "utf-16-le", "utf-32", "utf-7", "big5", "gbk",
          "shift_jis", "euc-jp", "koi8-r", "cp437", "mac-roman", "utf-8-sig", "hex", "base64", "rot13",
          "zlib", "bz2", "unicode_escape", "raw_unicode_escape", "undefined", "mbcs", "oem", "klingon", "x-unknown", "utf8mb4", "",
          "a\x00b", "uu", "quopri", "charmap", "cp65001", "big5hkscs", "x" * 300,
          "UTF-8", " utf-8 ", "'utf-8'"]


def decode_cost(pid, rep, rnd, own, thorough):
    """PromptOnClose for bodies of realistic size: the ClientConn model makes `Deliver` one step that is always enabled once the
    peer has ended - the client decodes a text body on the event loop in that step, so the step's processor time is time
    in which no timeout can fire and nothing else runs.  For every charset label Python knows (canonical names and aliases)
    a 256 KiB body is delivered to the real protocol object and the processor time of the closing step is measured;
    a decoder is charged with its cost at the 10 MiB cap assuming no worse than linear growth (x40), and a closing step
    that would hold the loop longer than the client's whole timeout is not prompt.  (Processor time, not wall time: the
    figure does not depend on what else the machine is doing.  Ordinary decoders need well under a millisecond here.)"""
    if "PromptOnClose" not in own:
        return
    import encodings.aliases
    import time
    labels = sorted(set(encodings.aliases.aliases.values()) | set(encodings.aliases.aliases.keys()) | {"idna", "punycode", "utf-8", "utf_8_sig"})
    if not thorough:
        canon = sorted(set(encodings.aliases.aliases.values()) | {"idna", "punycode", "utf-8"})
        labels = canon + rnd.sample(sorted(set(labels) - set(canon)), 40)
    n = 128 * 1024
    shapes = {"dash": b"a" * n + b"-" + b"a" * n, "dots": b"xn--a.a." * (n // 4), "bytes": bytes(rnd.getrandbits(8) for _ in range(4096)) * (n // 2048)}
    BOUND = 0.25        # s of processor time at 256 KiB  ->  10 s at the cap
    worst = (0.0, None)
    cases = 0
    for label in labels:
        for ep in ("get", "upload"):
            for shape, body in shapes.items():
                if shape != "dash" and not thorough and ep == "upload":
                    continue
                header = ("20 text/plain; charset=%s" % label).encode()
                scr = script("cost-%s-%s" % (label, shape), header, True, "ok", 20, True, "known", body, True, "fin")
                h = ClientHarness(scr, "off", ep=ep, seed=0)
                try:
                    h.do("Rx", len(scr["data"]))
                    t0 = time.process_time()
                    h.do("PeerEnds")
                    h.do("Deliver")
                    dt = time.process_time() - t0
                    cases += 1
                    if dt > worst[0]:
                        worst = (dt, label)
                    if dt > BOUND:
                        rep.violation({"formula": "PromptOnClose", "decode": True, "label": label, "ep": ep},
                                      "['PromptOnClose'] falsified: the closing step of a %s whose 2x response declares charset=%s held the "
                                      "event loop for %.2fs of processor time on a %d-byte body (%s): at the 10 MiB cap that is at least %.0fs "
                                      "during which no timeout fires and nothing else runs; the call ended %s"
                                      % (ep, label, dt, len(body), shape, dt * 40, h.outcome()), {"label": label, "ep": ep, "shape": shape, "seconds": dt})
                        break           # (one report per label and entry point)
                finally:
                    h.close()
    rep.add("decode_cost_cases", cases)
    rep.set("decode_cost_worst", {"seconds_at_256KiB": round(worst[0], 4), "label": worst[1]})


def live_nonsuccess(pid, rep, rnd, own, thorough):
    """SegIndep / Faithful over real TLS for answers that are complete at the CRLF: a non-2x header followed by whatever the
    server does next - more bytes in the same write, more bytes in a later write, close_notify, a bare TCP close, nothing for a
    while.  The fake transport of the ClientConn replay drops what arrives after the client's own close; a TLS transport does
    not (late application data during the client's shutdown is an SSL error, an unread close_notify turns the peer's close
    into a reset), so only real sockets show whether the result depends on it.  The scripted peer is a blocking TLS server
    of the check's own; the client is the real GeminiClient (get and upload)."""
    if "SegIndep" not in own:
        return
    import asyncio as aio
    import socket
    import ssl
    import threading
    import time
    from nauyaca.client.session import GeminiClient
    from vf.memtls import CertFiles
    cert = CertFiles("ec", "localhost")
    ctx = ssl.SSLContext(ssl.PROTOCOL_TLS_SERVER)
    ctx.load_cert_chain(cert.certfile, cert.keyfile)
    lsock = socket.socket()
    lsock.setsockopt(socket.SOL_SOCKET, socket.SO_REUSEADDR, 1)
    lsock.bind(("127.0.0.1", 0))
    lsock.listen(16)
    port = lsock.getsockname()[1]
    plan = {}
    stop = []

    def serve():
        while not stop:
            try:
                raw, _ = lsock.accept()
            except OSError:
                return
            try:
                raw.settimeout(5)
                s_ = ctx.wrap_socket(raw, server_side=True)
                buf = b""
                while b"\r\n" not in buf:
                    d = s_.recv(4096)
                    if not d:
                        break
                    buf += d
                # (a well-behaved peer: it reads the whole request - an upload's content too - before it answers and closes)
                line, _, rest = buf.partition(b"\r\n")
                want = int(line.split(b";size=")[1].split(b";")[0]) if b";size=" in line else 0
                while len(rest) < want:
                    d = s_.recv(4096)
                    if not d:
                        break
                    rest += d
                mode, header, extra = plan["now"]
                if mode in ("once", "once-fin"):
                    s_.sendall(header + extra)
                else:
                    s_.sendall(header)
                    time.sleep(0.2)
                    if extra:
                        try:
                            s_.sendall(extra)
                        except (OSError, ssl.SSLError):
                            pass
                if mode.endswith("fin"):
                    s_.close()                        # bare TCP close: SSLSocket.close() sends no close_notify
                else:
                    try:
                        plain_sock = s_.unwrap()      # close_notify, then the TCP close
                        plain_sock.close()
                    except (OSError, ssl.SSLError):
                        s_.close()
            except (OSError, ssl.SSLError):
                try:
                    raw.close()
                except OSError:
                    pass
    th = threading.Thread(target=serve, daemon=True)
    th.start()
    n = 0
    try:
        statuses = [51, 10, 30, 44, 60] if thorough else [51, 30]
        for st in statuses:
            for mode in ("once", "late", "once-fin", "late-fin"):
                for extra in (b"", b"sorry"):
                    if mode.startswith("once") and not extra and mode == "once":
                        pass
                    for ep in ("get", "upload"):
                        header = b"%d some meta\r\n" % st
                        plan["now"] = (mode, header, extra)

                        async def call():
                            async with GeminiClient(timeout=3.0, trust_on_first_use=False, verify_ssl=False) as c:
                                if ep == "get":
                                    return await c.get("gemini://127.0.0.1:%d/x" % port, follow_redirects=False)
                                return await c.upload("gemini://127.0.0.1:%d/x" % port, b"abc", mime_type="text/plain")
                        try:
                            r = aio.run(call())
                            got = "response %s %r body=%r" % (r.status, r.meta, r.body)
                            ok = r.status == st and r.meta == "some meta" and r.body in (None, "", b"")
                        except Exception as e:  # noqa: BLE001
                            got, ok = "%s: %s" % (type(e).__name__, str(e)[:80]), False
                        n += 1
                        if not ok:
                            rep.violation({"formula": "SegIndep", "live": True, "nonsuccess": True, "mode": mode},
                                          "['SegIndep', 'Faithful'] falsified over real TLS: the server answers %r and then %s%s: %s returned %s - the same answer written at once and closed in order is "
                                          "returned as response %d" % (header, "sends %r " % extra if extra else "", {"once": "closes in order", "late": "(0.2 s later) closes in order",
                                                                      "once-fin": "closes the TCP connection without close_notify", "late-fin": "(0.2 s later) closes the TCP connection without close_notify"}[mode],
                                                                      ep, got, st), None)
        rep.add("live_nonsuccess_calls", n)
        rep.add("traces_validated_against_impl", n)
    finally:
        stop.append(1)
        try:
            lsock.close()
        except OSError:
            pass
        cert.remove()


def random_script(rnd, k):
    st = rnd.choice([20, 20, 20, 21, 29, 10, 11, 30, 31, 40, 44, 51, 59, 60, 62])
    mime = rnd.choice(["text/gemini", "text/plain", "TEXT/Gemini", "application/octet-stream", "image/png", "", "text/x"])
    cs = rnd.choice(CODECS) if rnd.random() < 0.7 else None
    meta = mime + ("; lang=en" if rnd.random() < 0.3 else "") + ("; charset=%s" % cs if cs is not None else "")
    header = ("%d %s" % (st, meta)).encode("utf-8")
    body = bytes(rnd.getrandbits(8) for _ in range(rnd.choice([0, 1, 5, 40, 300]))) if rnd.random() < 0.5 else \
        "text büdy ☃ %d\r\nmore\n" .encode("utf-8") * rnd.choice([0, 1, 3])
    ends = rnd.choice(["fin", "fin", "fin", "rst", "never"])
    total = len(header) + 2 + len(body)
    send_len = total if rnd.random() < 0.8 else rnd.randint(0, total)
    cuts = [rnd.randint(1, max(1, send_len)) for _ in range(rnd.randint(0, 5))] if send_len else []
    text = (mime.lower().startswith("text/") or mime == "")
    return script("rand%d" % k, header, True, "ok", st, text, "?", body, True, ends, send_len=send_len, extra_cuts=cuts)


def b2(pid, rep, rnd, own, count, d):
    n = 0
    for k in range(count):
        scr = random_script(rnd, k)
        rec = scr["rec"]
        tofu = rnd.choice(["off", "first", "match"])
        ep = rnd.choice(["get", "upload"])
        h = ClientHarness(scr, tofu, ep, verify_ssl=(k % 4 == 0), hold_verify=True)
        try:
            pts = sorted(set(c for c in rec["cuts"] if rnd.random() < 0.6) | {rec["sendLen"]}) if rec["sendLen"] else []
            # a server that talks first: some reads arrive before the request has left
            early = rnd.choice([0, 0, 0, 1, 2, len(pts)]) if tofu != "off" else 0
            for p in pts[:early]:
                if not (h.tr.closing or h.tr.lost) and p > h.rx:
                    h.do("Rx", p)
            h.do("Verify")
            for p in pts:
                if h.tr.closing or h.tr.lost:
                    break
                if p > h.rx:
                    h.do("Rx", p)
            if not h.tr.lost and rec["ends"] in ("fin", "rst") and not h.tr.closing:
                h.do("PeerEnds")
            if h.tr.pending_lost is not None and not h.tr.lost:
                h.do("LostAfterClose")
            t_before_deadline = h.elapsed()
            out = h.outcome()
            if out == "waiting":
                h.do("Deadline")
                out = h.outcome()
                prompt_needed = False
            else:
                prompt_needed = True
            n += 1
            bad = set()
            detail = ""
            # oracle from the bytes alone
            raw = scr["data"][:rec["sendLen"]]
            delivered_all = h.rx >= rec["sendLen"]
            if out == "response":
                resp = h.task.result()
                head, sep, body = raw.partition(b"\r\n")
                if not sep:
                    bad.add("ByteFaithful")
                    detail = "response without a header terminator"
                else:
                    if resp.status != rec["status"]:
                        bad.add("ByteFaithful")
                    if 20 <= resp.status <= 29:
                        try:
                            eb, meta = expected_body(scr)
                            if rec["ends"] != "fin":
                                bad.add("ByteFaithful")
                                detail = "response returned although the stream never ended cleanly (%s)" % rec["ends"]
                            elif resp.body != eb and not (resp.body in (None, "", b"") and eb in ("", b"")):
                                bad.add("ByteFaithful")
                                detail = "body differs from the bytes after the first CRLF"
                        except (UnicodeDecodeError, LookupError) as e:
                            bad.add("ByteFaithful")
                            detail = "response although body not decodable: %r" % e
                    elif resp.body not in (None, "", b""):
                        bad.add("ByteFaithful")
            elif out == "waiting":
                bad.add("Terminates")
            if prompt_needed and t_before_deadline >= TIMEOUT:
                bad.add("Prompt")
            if out == "error:Timeout" and h.tr.lost and rec["ends"] in ("fin", "rst") and delivered_all:
                bad.add("Prompt")
                detail = "peer closed, yet the call waited for the timeout"
            if out.startswith("error:other"):
                detail = out
            mine = sorted(bad & own)
            if mine:
                rep.violation({"formula": mine[0], "random": True, "ends": rec["ends"]},
                              "%s falsified on a random stream: header=%r send_len=%d ends=%s cuts=%s -> %s %s" % (
                                  mine, scr["data"][:60], rec["sendLen"], rec["ends"], rec["cuts"], out, detail), None)
            elif k % 97 == 0:
                rep.sample({"random_stream_header": scr["data"][:50].decode("latin1"), "ends": rec["ends"], "outcome": out})
        finally:
            h.close()
    rep.add("random_streams", n)
    rep.add("traces_validated_against_impl", n)


FLAGS_CC = ["NothingBeforeVerify", "ChangedGetsNothing", "PromptOnClose", "Faithful", "Capped", "SegIndep"]


def classified_script(rnd, k):
    """A random server stream together with its classification in the specification's terms (the input abstraction:
    which header class, whether the declared charset is usable, whether the delivered body decodes with it)."""
    kind = rnd.choice(["ok"] * 8 + ["badStatus", "badUtf8"])
    st = rnd.choice([20, 20, 20, 20, 21, 22, 29, 10, 11, 30, 31, 40, 44, 51, 53, 59, 60, 62, 69, 5, 9, 70, 99, 100])
    mime = rnd.choice(["text/gemini", "text/plain", "TEXT/Gemini", " text/gemini ", "application/octet-stream", "image/png", "", "text/x", "textual/x"])
    cs = rnd.choice(CODECS) if rnd.random() < 0.6 else None
    meta = mime + ("; lang=en" if rnd.random() < 0.3 else "") + ((rnd.choice(["; charset=%s", ";charset=%s", "; CHARSET=%s", "; charset=\"%s\""]) % cs) if cs is not None else "")
    if kind == "ok":
        header = ("%d %s" % (st, meta)).encode("utf-8")
        if not (10 <= st <= 99):
            kind = "badStatus"           # one or three digits: not a status at all
    elif kind == "badStatus":
        # not two ASCII digits - including everything int() would read as a number all the same
        header = (rnd.choice(["2x", "", "ab", "2.0", "0x14", "--", "+20", "2_0", "020", "\uff12\uff10", "\u0662\u0660", "\t20", "20\n", "\u00a020", "-20", "00000000000000000031"])
                  + " " + meta).encode("utf-8")
    else:
        header = ("%d %s" % (st, meta)).encode("utf-8") + rnd.choice([b"\xff", b"\xc3", b"\xfe\xff"])
    body = bytes(rnd.getrandbits(8) for _ in range(rnd.choice([0, 1, 5, 40, 300]))) if rnd.random() < 0.4 else \
        "text b\u00fcdy \u2603\r\nmore\n".encode("utf-8") * rnd.choice([0, 1, 3])
    if b"\r\n" in header:
        header = header.replace(b"\r\n", b"  ")
    crlf = rnd.random() < 0.93
    ends = rnd.choice(["fin", "fin", "fin", "rst", "never"])
    total = len(header) + (2 if crlf else 0) + len(body)
    send_len = total if rnd.random() < 0.75 else rnd.randint(0, total)
    cuts = [rnd.randint(1, max(1, send_len)) for _ in range(rnd.randint(0, 6))] if send_len else []
    # classification ------------------------------------------------------------------------------------------------
    m0 = meta.split(";")[0].strip().lower()
    text = m0.startswith("text/") or m0 == ""
    charset, body_ok = "none", True
    if text and kind == "ok":
        label = "utf-8"
        if "charset=" in meta.lower():
            for part in meta.split(";"):
                part = part.strip()
                if part.lower().startswith("charset="):
                    label = part.split("=", 1)[1].strip().strip("\"'")
                    break
        data = (header + (b"\r\n" if crlf else b"") + body)[:send_len]
        delivered = data[len(header) + 2:] if crlf else b""
        if not delivered:
            try:
                import codecs
                codecs.lookup(label)
            except (LookupError, ValueError):
                # nothing to decode under a label that names no codec: bytes.decode() never looks the label up for b"",
                # a client that checks the label first reports it - either is in order, the case decides nothing
                return classified_script(rnd, k)
        try:
            import warnings
            with warnings.catch_warnings():
                warnings.simplefilter("ignore")          # unicode_escape warns about unknown escapes
                delivered.decode(label)
            charset = "known"
        except UnicodeDecodeError:
            charset, body_ok = "known", False
        except (LookupError, ValueError):
            charset = "unknown"
    return script("cls%d" % k, header, crlf, kind, st, text, charset, body if crlf else b"", body_ok, ends, send_len=send_len, extra_cuts=cuts)


def _next_action(h, pts):
    rec = h.scr["rec"]
    if h.tr is None:
        return None
    if h.tr.pending_lost is not None and not h.tr.lost:
        return ("LostAfterClose", None)
    if h.tr.lost:
        return None
    if not h.tr.closing:
        nxt = [p_ for p_ in pts if p_ > h.rx]
        if nxt:
            return ("Rx", nxt[0])
        if rec["ends"] in ("fin", "rst") and h.rx == rec["sendLen"]:
            return ("PeerEnds", None)
    return None


def b2_traces(pid, rep, rnd, own, count, overlap=False):
    """B2 by trace specification: the same kind of random runs, recorded and validated by TLC against ClientConnTrace.
    overlap=True: two calls at a time on ONE GeminiClient object, their callbacks interleaved at random (the reverse proxy
    uses its client this way); every call is still a behaviour of ClientConn on its own."""
    import tempfile
    traces = []
    metas = []
    for k in range(count):
        group = []
        first = None
        for j in range(2 if overlap else 1):
            scr = classified_script(rnd, k * 2 + j)
            rec = scr["rec"]
            tofu = "off" if overlap else rnd.choice(["off", "first", "match", "match", "changed", "unreadable"])
            ep = rnd.choice(["get", "upload"])
            h = ClientHarness(scr, tofu, ep, verify_ssl=(k % 4 == 0), shared=first, hold_verify=True)
            first = first or h
            pts = sorted(set(c for c in rec["cuts"] if rnd.random() < 0.6) | {rec["sendLen"]}) if rec["sendLen"] else []
            group.append({"h": h, "pts": pts, "steps": [], "tofu": tofu, "ep": ep})

        def log(g, act, p=0):
            o = g["h"].project()
            g["steps"].append({"act": act, "p": p, "sentReq": o["sentReq"], "caller": caller_class(o["caller"]), "cliClosed": o["cliClosed"], "lost": o["lost"],
                               "_caller": o["caller"]})
        try:
            for g in group:
                if g["tofu"] != "off":
                    # the server may talk before the request has left
                    for _ in range(rnd.choice([0, 0, 0, 1, 2, 50])):
                        a = _next_action(g["h"], g["pts"])
                        if a is None:
                            break
                        g["h"].do(a[0], a[1]) if a[0] == "Rx" else g["h"].do(a[0])
                        log(g, a[0], a[1] or 0)
                    g["h"].do("Verify")
                    log(g, "Verify")
            for _ in range(200):
                ready = [(g, a) for g in group for a in [_next_action(g["h"], g["pts"])] if a is not None and
                         (a[0] == "LostAfterClose" or g["h"].outcome() == "waiting" or g["h"].tr.pending_lost is not None)]
                if not ready:
                    break
                g, (a, p_) = rnd.choice(ready)
                g["h"].do(a, p_) if a == "Rx" else g["h"].do(a)
                log(g, a, p_ or 0)
            for g in group:
                if g["h"].outcome() == "waiting":
                    g["h"].do("Deadline")
                    log(g, "Deadline")
                    if g["h"].tr.pending_lost is not None and not g["h"].tr.lost:
                        g["h"].do("LostAfterClose")
                        log(g, "LostAfterClose")
        finally:
            for g in reversed(group):
                g["h"].close()
        for g in group:
            rec = g["h"].scr["rec"]
            r_ = dict(rec)
            r_["cuts"] = sorted(set(rec["cuts"]) | {s_["p"] for s_ in g["steps"] if s_["act"] == "Rx"})
            traces.append({"sc": r_, "tofu": g["tofu"], "ep": g["ep"], "steps": g["steps"]})
            metas.append(("overlapping " if overlap else "") + repr(g["h"].scr["data"][:70]))
    fd, tpath = tempfile.mkstemp(prefix="vf-cct-", suffix=".json")
    with os.fdopen(fd, "w") as f:
        json.dump([{k_: ([{kk: vv for kk, vv in st_.items() if not kk.startswith('_')} for st_ in v_] if k_ == 'steps' else v_) for k_, v_ in t_.items()} for t_ in traces], f)
    try:
        tr, reached = tlc.validate_traces("ClientConnTrace", "ClientConnTrace.cfg", tpath, timeout=1200)
    finally:
        os.unlink(tpath)
    rep.tlc("ClientConnTrace", tr)
    acc = 0
    for i, t in enumerate(traces, 1):
        info = reached.get(i)
        if info is None:
            raise tlc.TLCError("ClientConnTrace did not reach trace %d" % i)
        bad = set()
        for (l, fl) in info["bad"]:
            for k_, ok in enumerate(fl):
                if not ok:
                    bad.add(FLAGS_CC[k_])
        if info["max"] == len(t["steps"]) + 1 and not bad:
            acc += 1
            continue
        at = info["max"]
        step = t["steps"][at - 1] if at - 1 < len(t["steps"]) else None
        desc = "recorded call (%s, script %s, tofu=%s, ep=%s): matched %d of %d steps; next step %s" % (
            metas[i - 1], {k_: v for k_, v in t["sc"].items() if k_ != "cuts"}, t["tofu"], t["ep"], at - 1, len(t["steps"]), step)
        mine = sorted(bad & own)
        if mine:
            rep.violation({"formula": mine[0], "trace": True}, "%s falsified on a recorded call: %s" % (mine, desc), t)
        elif step is not None:
            # the specification cannot explain the step: request bytes are C11's, the caller's outcome is C13's
            prev = t["steps"][at - 2] if at >= 2 else {"sentReq": t["tofu"] == "off", "caller": "waiting"}
            final = t["steps"][-1]["caller"]
            formula = "NothingBeforeVerify" if (step["sentReq"] and t["tofu"] in ("changed", "unreadable")) else \
                ("PromptOnClose" if step["caller"] == "waiting" and step["lost"] else
                 # the way the call ends is the script's business alone: only an ending outside the script's expected class counts
                 ("SegIndep" if (final not in ("waiting", "error:Timeout", "error:CertificateChanged", "error:CertificateUnreadable")
                                 and final not in expected_class(t["sc"])) else "-other-"))
            if formula in own:
                rep.violation({"formula": formula, "trace": True, "rejected": True},
                              "recorded call is not a behaviour of ClientConn: %s" % desc, t)
            else:
                rep.drifted("recorded call rejected by ClientConnTrace: " + desc)
        else:
            rep.drifted("recorded call: invariants %s false (not this property's): %s" % (sorted(bad), desc))
    rep.add("recorded_calls_validated_by_tlc" + ("_overlapping" if overlap else ""), len(traces))
    rep.add("recorded_calls_accepted" + ("_overlapping" if overlap else ""), acc)
    rep.add("traces_validated_against_impl", len(traces))
    if rep.tier == "thorough" and traces and not overlap:
        # binding self-test: corrupt what the caller got in accepted traces - ClientConnTrace must reject each of them
        bad_traces = []
        for t in traces[:60]:
            if not t["steps"]:
                continue
            t2 = json.loads(json.dumps(t))
            last = t2["steps"][-1]
            last["caller"] = "response" if last["caller"] != "response" else "error:Timeout"
            bad_traces.append(t2)
        fd, tpath = tempfile.mkstemp(prefix="vf-cct-", suffix=".json")
        with os.fdopen(fd, "w") as f:
            json.dump(bad_traces, f)
        try:
            tr2, reached2 = tlc.validate_traces("ClientConnTrace", "ClientConnTrace.cfg", tpath, timeout=600)
        finally:
            os.unlink(tpath)
        wrongly = [i for i, t in enumerate(bad_traces, 1) if reached2.get(i, {"max": 0})["max"] == len(t["steps"]) + 1]
        rep.set("binding_selftest_clientconntrace", {"corrupted": len(bad_traces), "wrongly_accepted": len(wrongly)})
        if wrongly:
            raise tlc.TLCError("binding self-test: ClientConnTrace accepted %d corrupted traces" % len(wrongly))


if __name__ == "__main__":
    main(sys.argv[1])
