"""C12 - the trust store changes atomically and survives export/import.  spec/TofuStore.tla, TofuStoreObs.tla

  M   TLC: Atomic, DoneIsAfter, FailureRaises, OthersUntouched (invariants) and SingleCommitPoint (action property)
      on the statement-level model of trust / revoke / clear / import(merge|replace) with a Crash action enabled at
      every statement boundary; 4050 (store, operation) initial states (imports of <= 2 entries, malformed entry at
      every position, duplicate hosts, three conflict policies).  Deviations ReplaceClearsInOwnTxn and
      ExistenceViaSecondConn must be caught.
  B1  every (store, operation) TLC enumerates is executed on the real TOFUDatabase (SQLite file on tmpfs) with a
      fault injected at EVERY statement boundary (execute / commit entry, counted by a sqlite3.Connection subclass
      installed through connect(factory=)): an injected sqlite3.OperationalError / OSError in process, and a real
      process kill (fork + os._exit at the boundary) for a sample; the file is reopened and the table compared.
  V   what was found is judged by TLC (TofuStoreObs): AllOrNothing, Completed, RaisedUntouched, FailureRaises,
      OthersUntouched, with After(before, op) computed by the specification.
  +   round trip export -> import into an empty store for generated host names (IPv6 literals, dots, colons, quotes,
      non-ASCII, TOML metacharacters): host, port, fingerprint and first_seen must be reproduced.
"""
import json
import os
import random
import shutil
import sqlite3
import sys
import tempfile
import types

sys.path.insert(0, os.path.dirname(os.path.dirname(os.path.abspath(__file__))))
from vf import evidence, tlc, use_repo  # noqa: E402

use_repo()
from pathlib import Path  # noqa: E402

import tomli_w  # noqa: E402
from nauyaca.security import tofu as tofumod  # noqa: E402

# two names that differ only where SQL's LIKE has a wildcard
HOSTS = {"h1": ("app_1.ex", 1965), "h2": ("app-1.ex", 1965), "h3": ("app_1.ex", 1966)}       # h3: h1's name on another port
# the same three abstract hosts under other spellings ("for any host names"): names that differ only after a NUL character
# (SQLite's own NOCASE stops comparing there), only in a LIKE wildcard's position, only in a non-ASCII letter, only in a
# trailing dot.  Library front end only: a NUL cannot be a command-line argument.
SPELLINGS = [dict(HOSTS),
             {"h1": ("a\0b", 1965), "h2": ("a\0c", 1965), "h3": ("a\0b", 1966)},
             {"h1": ("a%c.ex", 1965), "h2": ("abc.ex", 1965), "h3": ("a%c.ex", 1966)},
             {"h1": ("\u00e9cole.ex", 1965), "h2": ("ecole.ex", 1965), "h3": ("\u00e9cole.ex", 1966)},
             {"h1": ("app.ex", 1965), "h2": ("app.ex.", 1965), "h3": ("app.ex", 1966)}]
FPS = {"f1": "sha256:" + "1" * 64, "f2": "sha256:" + "2" * 64}
FP_INV = {v: k for k, v in FPS.items()}
FOLLOWUP_HOST = ("unrelated.ex", 1965)
FLAGS = ["AllOrNothing", "Completed", "RaisedUntouched", "FailureRaises", "OthersUntouched"]


class Injected(Exception):
    pass


class Plan:
    """Where to inject: boundary index k (0-based over execute/commit entries of the operation), and what."""

    def __init__(self, k=None, kind=None):
        self.k = k
        self.kind = kind
        self.count = 0
        self.armed = False

    def boundary(self):
        if not self.armed:
            return
        i = self.count
        self.count += 1
        if self.k is not None and i == self.k:
            if self.kind == "crash":
                os._exit(77)
            if self.kind == "operational":
                raise sqlite3.OperationalError("disk I/O error (injected)")
            if self.kind == "oserror":
                raise OSError(5, "Input/output error (injected)")


PLAN = Plan()


class CountingCursor(sqlite3.Cursor):
    def execute(self, *a, **kw):
        PLAN.boundary()
        return super().execute(*a, **kw)


class CountingConnection(sqlite3.Connection):
    def cursor(self, *a, **kw):
        return super().cursor(factory=CountingCursor)

    def execute(self, *a, **kw):
        PLAN.boundary()
        return super().execute(*a, **kw)

    def executemany(self, *a, **kw):
        PLAN.boundary()
        return super().executemany(*a, **kw)

    def commit(self):
        PLAN.boundary()
        return super().commit()


def install_shim():
    # however security/tofu.py imports it (module, alias, `from sqlite3 import connect`): see vf/sqlfault.rebind_connect
    from vf import sqlfault
    sqlfault.rebind_connect(tofumod, CountingConnection)


def read_store(path):
    con = sqlite3.connect(path)
    try:
        rows = con.execute("SELECT hostname, port, fingerprint FROM known_hosts").fetchall()
    finally:
        con.close()
    out = {"h1": "none", "h2": "none", "h3": "none"}
    extra = []
    for host, port, fp in rows:
        key = [k for k, v in HOSTS.items() if v == (host, port)]
        if key:
            out[key[0]] = FP_INV.get(fp, "other")
        elif (host, port) == FOLLOWUP_HOST:
            continue                       # the unrelated host pinned by the follow-up operation
        else:
            extra.append((host, port))
    if extra:
        out["_extra"] = extra
    return out


def prepare(path, store):
    if os.path.exists(path):
        os.unlink(path)
    for ext in ("-journal", "-wal", "-shm"):
        if os.path.exists(path + ext):
            os.unlink(path + ext)
    PLAN.armed = False
    db = tofumod.TOFUDatabase(Path(path))
    con = sqlite3.connect(path)
    for h, fp in store.items():
        if fp != "none":
            host, port = HOSTS[h]
            con.execute("INSERT INTO known_hosts VALUES (?,?,?,?,?)", (host, port, FPS[fp], "2024-01-01T00:00:00+00:00", "2024-01-02T00:00:00+00:00"))
    con.commit()
    con.close()
    return db


class FakeCert:
    """trust() only needs the fingerprint of the certificate; supply it through the module's own helper."""

    def __init__(self, fp):
        self.fp = fp


def cli(args, home, stdin=""):
    """The operation through the command line front end (`nauyaca tofu ...`), in process; the store is ~/.nauyaca/tofu.db."""
    from typer.testing import CliRunner
    from nauyaca.__main__ import app
    old = os.environ.get("HOME")
    os.environ["HOME"] = home
    try:
        r = CliRunner().invoke(app, args, input=stdin)
    finally:
        if old is None:
            os.environ.pop("HOME", None)
        else:
            os.environ["HOME"] = old
    if r.exit_code != 0:
        raise RuntimeError("nauyaca %s exited %s" % (" ".join(args[:3]), r.exit_code))


def perform(db, op, workdir, rnd, front="lib"):
    """Run the operation; returns 'ok' or 'raised'."""
    kind = op["kind"]
    home = os.path.join(workdir, "home")
    if kind == "revokeName":
        host, port = HOSTS[op["h"]]
        if front == "cli":
            cli(["tofu", "revoke", host, "--force"], home)
        else:
            db.revoke_by_hostname(host)
    elif kind == "revokeNoPort":
        host, port = HOSTS[op["h"]]
        if front == "cli":
            cli(["tofu", "revoke", host, "--port", "0"], home)
        else:
            db.revoke(host, rnd.choice([0, None]))
    elif front == "cli" and kind == "revoke":
        host, port = HOSTS[op["h"]]
        cli(["tofu", "revoke", host, "--port", str(port)], home)
    elif front == "cli" and kind == "clear":
        cli(["tofu", "clear", "--force"], home)
    elif kind == "trust":
        host, port = HOSTS[op["h"]]
        orig = tofumod.get_certificate_fingerprint
        tofumod.get_certificate_fingerprint = lambda cert: cert.fp
        try:
            db.trust(host, port, FakeCert(FPS[op["fp"]]))
        finally:
            tofumod.get_certificate_fingerprint = orig
    elif kind == "revoke":
        host, port = HOSTS[op["h"]]
        db.revoke(host, port)
    elif kind == "clear":
        db.clear()
    elif kind == "import":
        hosts = {}
        for i, e in enumerate(op["entries"]):
            host, port = HOSTS[e["h"]]
            rec = {"hostname": host, "port": port, "fingerprint": FPS[e["fp"]],
                   "first_seen": "2023-05-05T05:05:05+00:00", "last_seen": "2023-06-06T06:06:06+00:00"}
            if not e["ok"]:
                defect = rnd.choice(["missing", "port", "fp", "portstr"])
                if defect == "missing":
                    del rec[rnd.choice(["hostname", "port", "fingerprint", "first_seen", "last_seen"])]
                elif defect == "port":
                    rec["port"] = rnd.choice([0, 65536, -1])
                elif defect == "portstr":
                    rec["port"] = "1965"
                else:
                    rec["fingerprint"] = rnd.choice(["sha256:xyz", "md5:" + "1" * 32, "1" * 64, "sha256:" + "1" * 63])
            hosts["k%d" % i] = rec
        p = os.path.join(workdir, "import.toml")
        with open(p, "wb") as f:
            tomli_w.dump({"_metadata": {"version": "1.0"}, "hosts": hosts}, f)
        cb = None
        if op["policy"] == "update":
            cb = lambda *a: True  # noqa: E731
        elif op["policy"] == "raise":
            def cb(*a):
                raise RuntimeError("conflict callback failed")
        if front == "cli":
            # --force accepts every conflict ("update"); otherwise each prompt is answered "n" ("skip") or the input ends
            # ("raise": the prompt aborts inside the conflict callback)
            args = ["tofu", "import", p] + ([] if op["merge"] else ["--replace"]) + (["--force"] if op["policy"] == "update" else [])
            stdin = ("" if op["merge"] or op["policy"] == "update" else "y\n") + ("n\n" * 8 if op["policy"] == "skip" else "")
            cli(args, home, stdin)
        else:
            db.import_toml(Path(p), merge=op["merge"], on_conflict=cb)
    else:
        raise ValueError(kind)
    return "ok"


def run_case(path, workdir, store, op, k, kind, rnd_seed, front="lib"):
    """Returns (outcome, final store, number of boundaries seen)."""
    if front == "cli":
        os.makedirs(os.path.join(workdir, "home", ".nauyaca"), exist_ok=True)
        path = os.path.join(workdir, "home", ".nauyaca", "tofu.db")
    db = prepare(path, store)
    PLAN.k, PLAN.kind, PLAN.count = k, kind, 0
    rnd = random.Random(rnd_seed)
    if kind == "crash":
        pid = os.fork()
        if pid == 0:
            try:
                PLAN.armed = True
                perform(db, op, workdir, rnd, front)
                os._exit(0)
            except BaseException:
                os._exit(1)
        _, status = os.waitpid(pid, 0)
        code = os.waitstatus_to_exitcode(status)
        outcome = "crashed" if code == 77 else ("ok" if code == 0 else "raised")
        return outcome, read_store(path), None
    PLAN.armed = True
    try:
        perform(db, op, workdir, rnd, front)
        outcome = "ok"
    except Exception:  # noqa: BLE001 - any exception is "the operation failed"
        outcome = "raised"
    finally:
        PLAN.armed = False
        n = PLAN.count
    if rnd_seed % 2 == 0:
        # the same store object lives on (as in a long-running client): a later, unrelated, successful operation must not
        # make anything of the failed one durable
        orig = tofumod.get_certificate_fingerprint
        tofumod.get_certificate_fingerprint = lambda cert: cert.fp
        try:
            db.trust(FOLLOWUP_HOST[0], FOLLOWUP_HOST[1], FakeCert("sha256:" + "9" * 64))
        except Exception:  # noqa: BLE001
            pass
        finally:
            tofumod.get_certificate_fingerprint = orig
    return outcome, read_store(path), n


def plain(x):
    if isinstance(x, dict):
        return {k: plain(v) for k, v in x.items()}
    if isinstance(x, tuple):
        return [plain(v) for v in x]
    return x


def main(pid="C12"):
    rep = evidence.Report(pid, "fault_enumeration")
    thorough = rep.tier == "thorough"
    rnd = random.Random(rep.seed * 7 + 12)
    work = tempfile.mkdtemp(prefix="vf-c12-", dir="/dev/shm" if os.path.isdir("/dev/shm") else None)
    dbpath = os.path.join(work, "tofu.db")
    install_shim()
    try:
        r, states = tlc.dump_states("MC_TofuStore", "MC_TofuStore.cfg", timeout=900)
        rep.tlc("TofuStore(design)", r)
        if not r.ok:
            raise tlc.TLCError("design variant of TofuStore violates %s" % r.violated)
        dev = tlc.expect_caught("MC_TofuStore", "MC_TofuStore.cfg", {"DevReplaceClearsInOwnTxn": ["Atomic", "SingleCommitPoint"],
                                "DevExistenceViaSecondConn": ["DoneIsAfter", "Atomic", "FailureRaises"]}, timeout=600)
        rep.set("deviation_selftests", [{"deviation": d, "caught_by": c} for d, c, _ in dev])
        for d_, c, v in dev:
            if c is None:
                raise tlc.TLCError("self-test: %s not caught (%s)" % (d_, v))
        inits = [s for s in states if s["pc"] == 0 and s["outcome"] == "running"]
        rnd.shuffle(inits)
        if not thorough:
            # every single-statement operation on every store, and a sample of the imports
            single = [s_ for s_ in inits if s_["op"]["kind"] != "import"]
            inits = single + [s_ for s_ in inits if s_["op"]["kind"] == "import"][:600]
            rnd.shuffle(inits)
        cases = []
        nb_total = 0
        crash_cases = 0
        cli_cases = 0
        for idx, s in enumerate(inits):
            store = plain(s["committed"])
            op = plain(s["op"])
            seed = rnd.randrange(1 << 30)
            # a third of the operations that have a command go through the command line front end (`nauyaca tofu ...`)
            front = "cli" if (idx % 3 == 2 and op["kind"] != "trust") else "lib"
            cli_cases += front == "cli"
            HOSTS.update(SPELLINGS[0] if front == "cli" else SPELLINGS[(idx // 3) % len(SPELLINGS)])
            # fault-free run: counts the statement boundaries of this operation
            outcome, final, nb = run_case(dbpath, work, store, op, None, None, seed, front)
            cases.append({"before": store, "op": op, "outcome": outcome, "final": final, "_fault": "none", "_front": front})
            nb_total += nb
            for k in range(nb):
                kind = rnd.choice(["operational", "oserror"])
                o2, f2, _ = run_case(dbpath, work, store, op, k, kind, seed, front)
                cases.append({"before": store, "op": op, "outcome": o2, "final": f2, "_fault": "%s@%d/%d" % (kind, k, nb), "_front": front})
                if thorough or (idx % 4 == 0) or (front == "cli" and idx % 2 == 0):
                    o3, f3, _ = run_case(dbpath, work, store, op, k, "crash", seed, front)
                    cases.append({"before": store, "op": op, "outcome": o3, "final": f3, "_fault": "kill@%d/%d" % (k, nb), "_front": front})
                    crash_cases += 1
        rep.add("evaluations", len(cases))
        rep.set("distinct_nontrivial", len(cases))
        rep.set("operations", len(inits))
        rep.set("statement_boundaries_seen", nb_total)
        if nb_total == 0:
            raise tlc.TLCError("no statement boundary of the pin store was observed: the fault-injection connection class is not reached")
        rep.set("process_kills", crash_cases)
        rep.set("operations_through_cli", cli_cases)
        rep.add("traces_validated_against_impl", len(cases))
        for c in cases[:3] + cases[-2:]:
            rep.sample(c)
        # ---- V: everything is judged by TLC -------------------------------------------------------------------------
        for lo in range(0, len(cases), 20000):
            chunk = cases[lo:lo + 20000]
            fd, tpath = tempfile.mkstemp(prefix="vf-c12-", suffix=".json")
            with os.fdopen(fd, "w") as f:
                json.dump([{k: (v if k != "final" else {"h1": v.get("h1"), "h2": v.get("h2"), "h3": v.get("h3")}) for k, v in c.items() if not k.startswith("_")}
                           for c in chunk], f)
            try:
                tr, reached = tlc.validate_traces("TofuStoreObs", "TofuStoreObs.cfg", tpath, timeout=1200, dfs=False)
            finally:
                os.unlink(tpath)
            rep.tlc("TofuStoreObs", tr)
            for i, c in enumerate(chunk, 1):
                info = reached.get(i)
                if info is None or info["max"] < 2:
                    raise tlc.TLCError("TofuStoreObs did not evaluate case %d: %s" % (i, c))
                bad = set()
                for (l, fl) in info["bad"]:
                    for k, ok in enumerate(fl):
                        if not ok:
                            bad.add(FLAGS[k])
                if "_extra" in c["final"]:
                    bad.add("OthersUntouched")
                if bad:
                    rep.violation({"formula": sorted(bad)[0], "kind": c["op"]["kind"], "merge": c["op"]["merge"], "fault": c["_fault"].split("@")[0]},
                                  "%s falsified: store %s, operation %s (%s), fault %s: ended %s with store %s" % (
                                      sorted(bad), c["before"], c["op"], "through `nauyaca tofu`" if c.get("_front") == "cli" else "library call",
                                      c["_fault"], c["outcome"], c["final"]), c)
        round_trip(rep, rnd, work, 400 if thorough else 80)
        round_trip_other_locale(rep, work)
        big_import_crash(rep, work, [0.98, 0.5, 0.9, 0.999] if thorough else [0.98])
        rep.set("rule", "every (store, operation) enumerated by TLC x a fault at every statement boundary (injected error in process; "
                "process kill by fork+_exit for a quarter of the operations in the quick tier, all in thorough); distinct = (store, op, fault point, kind)")
        rep.set("exhaustive", thorough)
        rep.assume("SQLite's own durability (fsync, power loss) is trusted; process-kill atomicity is tested on tmpfs")
        rep.assume("statement boundaries are the entries of Cursor.execute and Connection.commit as seen through connect(factory=)")
        sys.exit(rep.finish())
    except tlc.TLCError as e:
        evidence.machinery_failure(pid, e)
    finally:
        shutil.rmtree(work, ignore_errors=True)


def round_trip(rep, rnd, work, count):
    PLAN.armed = False
    alphabet = ["example.org", "::1", "2001:db8::1", "[fe80::1]", "a.b.c.d.e", "host:with:colons", 'quo"te', "apo'strophe", "ünïcödé.ex",
                "日本語.jp", "tab\there", "back\\slash", "brack[et]", "hash#tag", "equals=sign", "dotted.key.name", "sp ace", "new\nline",
                "x" * 300, "UPPER.example", "trailing.dot.", "_under_score", "100%", "{brace}", "comma,host", ""]
    bad = 0
    for n in range(count):
        a = os.path.join(work, "rt-a.db")
        b = os.path.join(work, "rt-b.db")
        for p in (a, b):
            if os.path.exists(p):
                os.unlink(p)
        da = tofumod.TOFUDatabase(Path(a))
        rows = {}
        con = sqlite3.connect(a)
        for _ in range(rnd.randint(0, 6)):
            host = rnd.choice(alphabet)
            if host == "" or (host, 0) in rows:
                continue
            port = rnd.choice([1965, 1, 65535, 300])
            if (host, port) in rows:
                continue
            fp = "sha256:" + "".join(rnd.choice("0123456789abcdef") for _ in range(64))
            fs = "20%02d-0%d-1%dT0%d:00:00+00:00" % (rnd.randint(10, 25), rnd.randint(1, 9), rnd.randint(0, 9), rnd.randint(0, 9))
            if rnd.random() < 0.35:
                # first seen on a machine whose clock ran ahead of this one's, or written down in another notation: the value
                # is reproduced, not interpreted
                fs = rnd.choice(["2%03d-0%d-1%dT0%d:00:00+00:00" % (rnd.randint(27, 999), rnd.randint(1, 9), rnd.randint(0, 9), rnd.randint(0, 9)),
                                 "9999-12-31T23:59:59.999999+00:00", "2031-05-05 05:05:05", "2030-01-01T00:00:00Z",
                                 "2044-02-03T04:05:06.123456+05:30", "1970-01-01T00:00:00+00:00", "0001-01-01T00:00:00+00:00"])
            rows[(host, port)] = (fp, fs)
            con.execute("INSERT INTO known_hosts VALUES (?,?,?,?,?)", (host, port, fp, fs, fs))
        con.commit()
        con.close()
        f = os.path.join(work, "rt.toml")
        rep.add("evaluations")
        try:
            da.export_toml(Path(f))
            db = tofumod.TOFUDatabase(Path(b))
            db.import_toml(Path(f), merge=rnd.random() < 0.5)
            con = sqlite3.connect(b)
            got = {(h, p): (fp, fs) for h, p, fp, fs in con.execute("SELECT hostname, port, fingerprint, first_seen FROM known_hosts")}
            con.close()
        except Exception as e:  # noqa: BLE001
            got = "exception %r" % (e,)
        if got != rows:
            bad += 1
            rep.violation({"formula": "RoundTrip"}, "export -> import does not reproduce the store: had %s, got %s" % (
                sorted(rows.items())[:6], got if isinstance(got, str) else sorted(got.items())[:6]), None)
    rep.add("round_trips", count)


CHILD = r"""
import os, sys, sqlite3, json
sys.path.insert(0, os.path.join(os.environ["NAUYACA_REPO_"], "src"))
import nauyaca.protocol.request
from pathlib import Path
from nauyaca.security import tofu as tofumod
work = sys.argv[1]
rows = json.load(open(os.path.join(work, "lc-rows.json"), encoding="utf-8"))
a, b, f = (os.path.join(work, n) for n in ("lc-a.db", "lc-b.db", "lc.toml"))
for p in (a, b, f):
    if os.path.exists(p):
        os.unlink(p)
da = tofumod.TOFUDatabase(Path(a))
con = sqlite3.connect(a)
for host, port, fp, fs in rows:
    con.execute("INSERT INTO known_hosts VALUES (?,?,?,?,?)", (host, port, fp, fs, fs))
con.commit(); con.close()
try:
    da.export_toml(Path(f))
    tofumod.TOFUDatabase(Path(b)).import_toml(Path(f), merge=False)
    con = sqlite3.connect(b)
    got = sorted([h, p, fp, fs] for h, p, fp, fs in con.execute("SELECT hostname, port, fingerprint, first_seen FROM known_hosts"))
except Exception as e:
    got = "exception %r" % (e,)
sys.stdout.buffer.write(json.dumps({"got": got}).encode("ascii"))
"""


def round_trip_other_locale(rep, work):
    """The same round trip in a process whose locale is not UTF-8 (LC_ALL=C with locale coercion and UTF-8 mode off - the
    stand-in available here for a legacy code page): the file format is TOML, i.e. UTF-8, whatever the locale."""
    import subprocess
    from vf import REPO
    rows = sorted([[h, 1965, "sha256:" + "%064x" % (i + 1), "2024-01-0%dT00:00:00+00:00" % (i + 1)]
                   for i, h in enumerate(["ünïcödé.ex", "日本語.jp", "plain.example", "emoji-\U0001F600.ex"])])
    with open(os.path.join(work, "lc-rows.json"), "w", encoding="utf-8") as f:
        json.dump(rows, f)
    env = {k: v for k, v in os.environ.items() if not k.startswith(("LC_", "LANG", "PYTHONUTF8", "PYTHONCOERCECLOCALE", "PYTHONIOENCODING"))}
    env.update({"LC_ALL": "C", "PYTHONCOERCECLOCALE": "0", "PYTHONUTF8": "0", "NAUYACA_REPO_": REPO})
    r = subprocess.run([sys.executable, "-c", CHILD, work], env=env, capture_output=True, timeout=120)
    rep.add("evaluations")
    rep.add("round_trips_other_locale")
    try:
        got = json.loads(r.stdout.decode("ascii"))["got"]
    except Exception:  # noqa: BLE001
        raise tlc.TLCError("locale child failed: %r %r" % (r.stdout[-200:], r.stderr[-400:]))
    if got != rows:
        rep.violation({"formula": "RoundTrip", "locale": "C"},
                      "export -> import in a process with a non-UTF-8 locale does not reproduce the store: had %s, got %s" % (rows, got), None)


def big_import_crash(rep, work, kills):
    """A crash late in an import large enough for SQLite to spill pages to the file before COMMIT (tens of thousands of
    entries): the reopened store must be exactly the old one and structurally sound."""
    n_old, n_new = 3000, 30000
    path = os.path.join(work, "big.db")
    imp = os.path.join(work, "big.toml")
    with open(imp, "w") as f:
        f.write('[_metadata]\nversion = "1.0"\n\n')
        for i in range(n_new):
            f.write('[hosts.k%d]\nhostname = "new-%d.example"\nport = 1965\nfingerprint = "sha256:%064x"\nfirst_seen = "2024-01-01T00:00:00+00:00"\nlast_seen = "2024-01-01T00:00:00+00:00"\n\n' % (i, i, i + 7))
    for frac in kills:
        for ext in ("", "-journal", "-wal", "-shm"):
            if os.path.exists(path + ext):
                os.unlink(path + ext)
        PLAN.armed = False
        db = tofumod.TOFUDatabase(Path(path))
        con = sqlite3.connect(path)
        con.executemany("INSERT INTO known_hosts VALUES (?,?,?,?,?)",
                        [("old-%d.example" % i, 1965, "sha256:%064x" % i, "2023-01-01T00:00:00+00:00", "2023-01-01T00:00:00+00:00") for i in range(n_old)])
        con.commit()
        con.close()
        before = sorted(sqlite3.connect(path).execute("SELECT hostname, port, fingerprint FROM known_hosts").fetchall())
        pid = os.fork()
        if pid == 0:
            try:
                PLAN.k, PLAN.kind, PLAN.count, PLAN.armed = int(frac * 2 * n_new), "crash", 0, True
                db.import_toml(Path(imp), merge=True)
                os._exit(0)
            except BaseException:
                os._exit(1)
        _, status = os.waitpid(pid, 0)
        code = os.waitstatus_to_exitcode(status)
        rep.add("evaluations")
        rep.add("big_import_kills")
        con = sqlite3.connect(path)
        try:
            after = sorted(con.execute("SELECT hostname, port, fingerprint FROM known_hosts").fetchall())
            by_index = con.execute("SELECT COUNT(*) FROM known_hosts WHERE hostname >= ''").fetchone()[0]
            integrity = [r_[0] for r_ in con.execute("PRAGMA integrity_check").fetchall()]
        except sqlite3.DatabaseError as e:
            after, by_index, integrity = "unreadable: %r" % (e,), -1, ["unreadable"]
        finally:
            con.close()
        if code == 77 and (after != before or integrity != ["ok"] or by_index != len(before)):
            rep.violation({"formula": "AllOrNothing", "big_import": True},
                          "AllOrNothing falsified: process killed at statement boundary %d of a %d-entry merge import into a store of %d pins: reopened store has %s rows "
                          "(index scan: %s), integrity_check %s" % (int(frac * 2 * n_new), n_new, n_old, len(after) if isinstance(after, list) else after, by_index, integrity[:2]), None)
        elif code != 77 and (after != before or integrity != ["ok"]) and code != 0:
            rep.violation({"formula": "RaisedUntouched", "big_import": True},
                          "RaisedUntouched falsified: a %d-entry merge import failed (exit %s) and left the store changed (%s rows, integrity_check %s)" % (
                              n_new, code, len(after) if isinstance(after, list) else after, integrity[:2]), None)


if __name__ == "__main__":
    main(sys.argv[1] if len(sys.argv) > 1 else "C12")
