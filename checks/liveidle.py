"""C01 "no half-written response ... no bytes after the close" on the servers the real start_server builds (both backends),
live sockets: a body larger than the kernel's socket buffers to a reader that idles for several seconds after the first
bytes must arrive complete and end cleanly (shared with C06's live part)."""
import os
import sys

sys.path.insert(0, os.path.dirname(os.path.dirname(os.path.abspath(__file__))))
from vf import evidence, tlc  # noqa: E402
from vf.memtls import CertFiles  # noqa: E402


def main(pid, rep=None, finish=True):
    from checks import live
    rep = rep or evidence.Report(pid, "exploration")
    cert = CertFiles("ec", "localhost")
    try:
        n = live.started_server_idle_reader(rep, cert, formula="NeverTorn" if pid == "C01" else "ByteExact")
        rep.add("live_idle_reader_fetches", n)
        rep.add("traces_validated_against_impl", n)
        if finish:
            sys.exit(rep.finish())
    except tlc.TLCError as e:
        evidence.machinery_failure(pid, e)
    finally:
        cert.remove()


if __name__ == "__main__":
    main(sys.argv[1] if len(sys.argv) > 1 else "C01")
