"""spec/TitanLine.tla - the Titan half of C08: which Titan request lines reach the chain and the upload handler.  TLC
enumerates (size spelling, fragment position, user-info, path kind); every case is sent, with three bytes of content, to the
REAL server protocol with a recording chain and a recording upload handler on a fake transport: refused with 59 and nothing
called, or handed on."""
import asyncio
import os
import sys

sys.path.insert(0, os.path.dirname(os.path.dirname(os.path.abspath(__file__))))
from vf import evidence, tlc, use_repo  # noqa: E402
from vf.transports import FakeTransport  # noqa: E402
from vf.vloop import VLoop  # noqa: E402

use_repo()
from nauyaca.protocol.response import GeminiResponse  # noqa: E402
from nauyaca.server.middleware import MiddlewareChain  # noqa: E402
from nauyaca.server.protocol import GeminiServerProtocol  # noqa: E402

SIZE = {"3": "size=3", "0": "size=0", "plus": "size=+3", "underscore": "size=0_3", "spaces": "size= 3 ", "arabic": "size=٣",
        "fullwidth": "size=３", "negzero": "size=-0", "neg": "size=-3", "alpha": "size=abc", "empty": "size=", "float": "size=3.0",
        "missing": "mime=text/plain", "hex": "size=0x3", "nbsp": "size=\u00a03\u3000", "nbspKey": "\u2003size\u00a0=3"}
PATH = {"plain": "/up/f.gmi", "empty": "", "pct": "/up/a%20b%3Bc.gmi"}
OWN = {"C08": {"OnlyValidReachHandler", "ValidNotRefused"}}


def plain(x):
    if isinstance(x, dict):
        return {k: plain(v) for k, v in x.items()}
    return x


def line_of(st):
    auth = {"none": "h.ex", "plain": "user@h.ex", "semicolon": "user;x=1@h.ex"}[st["user"]]
    base = "titan://" + auth + PATH[st["path"]]
    params = ";" + SIZE[st["size"]] + ";mime=text/plain"
    if st["frag"] == "beforeParams":
        return base + "#frag" + params
    if st["frag"] == "insideParams":
        return base + ";" + SIZE[st["size"]] + "#frag;mime=text/plain"
    if st["frag"] == "afterParams":
        return base + params + "#frag"
    return base + params


def run_case(st):
    loop = VLoop()
    asyncio.set_event_loop(loop)
    try:
        seen, ups = [], []

        class Rec:
            async def process_request(self, url, ip, fp=None):
                seen.append(url)
                return True, None

        class Up:
            async def handle_upload(self, req):
                ups.append(req)
                return GeminiResponse(status=20, meta="text/gemini", body="stored\n")
        proto = GeminiServerProtocol(lambda r: GeminiResponse(status=51, meta="no"), MiddlewareChain([Rec()]), Up())
        tr = FakeTransport(loop, proto, peername=("192.0.2.7", 40000), auto_lost=True)
        loop.call(proto.connection_made, tr)
        line = line_of(st)
        loop.call(tr.feed, line.encode("utf-8") + b"\r\nabc")
        loop.run_idle()
        for _ in range(3):
            nt = loop.next_timer()
            if nt is None or tr.is_closing():
                break
            loop.advance(nt - loop.time())
            loop.run_idle()
        wire = bytes(tr.wire)
        if seen or ups:
            return "handler", line, wire[:40]
        if wire.startswith(b"59 "):
            return "refused59", line, wire[:40]
        return "other:%r" % wire[:40], line, wire[:40]
    finally:
        asyncio.set_event_loop(None)
        loop.close()


def main(pid="C08", rep=None, finish=True):
    rep = rep or evidence.Report(pid, "model_checking")
    own = OWN.get(pid, set())
    try:
        r, states = tlc.dump_states("TitanLine", "MC_TitanLine.cfg", timeout=300)
        rep.tlc("TitanLine(design)", r)
        if not r.ok:
            raise tlc.TLCError("design variant of TitanLine violates %s" % r.violated)
        dev = tlc.expect_caught("TitanLine", "MC_TitanLine.cfg", {"DevLenientInt": ["OnlyValidReachHandler"]}, timeout=300)
        if dev[0][1] is None:
            raise tlc.TLCError("self-test: DevLenientInt not caught")
        n = 0
        for st in states:
            st = plain(st)
            if st["out"] == "pending":
                continue
            got, line, wire = run_case(st)
            n += 1
            valid = st["size"] in ("3", "0") and st["frag"] == "none" and st["user"] == "none"
            bad = []
            if got == "handler" and not valid:
                bad.append("OnlyValidReachHandler")
            if got != "handler" and valid:
                bad.append("ValidNotRefused")
            desc = "Titan request line %r (size %s, fragment %s, user-info %s): %s (%r), specification %s" % (
                line, st["size"], st["frag"], st["user"], got, wire, st["out"])
            if bad:
                mine = sorted(set(bad) & own)
                if mine:
                    rep.violation({"formula": mine[0], "module": "TitanLine", "size": st["size"], "frag": st["frag"], "user": st["user"]},
                                  "%s falsified: %s" % (mine, desc), None)
                else:
                    rep.drifted("Titan line handling departs from TitanLine.tla (%s): %s" % (bad, desc))
            elif got != st["out"]:
                rep.drifted("Titan line handling departs from TitanLine.tla: " + desc)
        rep.add("titan_line_cases", n)
        rep.add("traces_validated_against_impl", n)
        if finish:
            sys.exit(rep.finish())
    except tlc.TLCError as e:
        evidence.machinery_failure(pid, e)


if __name__ == "__main__":
    main(sys.argv[1] if len(sys.argv) > 1 else "C08")
