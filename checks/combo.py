"""Properties decided by more than one specification module: run each module's check with the property's own
formulas on one shared report / evidence file."""
import os
import sys

sys.path.insert(0, os.path.dirname(os.path.dirname(os.path.abspath(__file__))))
from vf import evidence  # noqa: E402

PLAN = {
    "C01": ["serverconn", "router", "tlspump", "logfault", "liveidle"],
    "C04": ["serverconn", "chain"],
    "C05": ["c05", "chain", "assembly"],
    "C06": ["tlspump", "live", "logfault", "slowhandler"],
    "C07": ["serverconn", "tlspump", "live"],
    "C15": ["serverconn", "tlspump", "live"],
    "C11": ["clientconn", "c03"],
    "C20": ["tlspump", "live"],
    "C08": ["url", "titanline", "serverconn", "tlspump"],
}

if __name__ == "__main__":
    pid = sys.argv[1]
    rep = evidence.Report(pid, "model_checking")
    import importlib
    for name in PLAN[pid]:
        try:
            mod = importlib.import_module("checks." + name)
        except ModuleNotFoundError:
            continue
        mod.main(pid, rep=rep, finish=False)
    sys.exit(rep.finish())
