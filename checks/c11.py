"""C11 - nothing is sent to a peer before its certificate is verified: decided by ClientConn (one call, every
schedule of one connection) and by Tofu (histories on one client object: redirect hops, repeated calls, rotations)."""
import os
import sys

sys.path.insert(0, os.path.dirname(os.path.dirname(os.path.abspath(__file__))))
from vf import evidence  # noqa: E402
from checks import c03, clientconn  # noqa: E402

if __name__ == "__main__":
    rep = evidence.Report("C11", "model_checking")
    clientconn.main("C11", rep=rep, finish=False)
    c03.main("C11", rep=rep, finish=False)
    sys.exit(rep.finish())
