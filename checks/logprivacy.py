"""spec/LogPrivacy.tla - no client address in the log when hashing is on: extension beyond the listed properties.
The real logging pipeline (configure_logging -> structlog processors -> renderer -> file) is configured in a child process
per (hashing, format); the real GeminiServerProtocol is then run on random configurations and schedules of
spec/ServerConn.tla (the same generator as the C01 trace runs: every kind of request, middleware verdict, handler outcome,
timeout, early close) for a peer with a distinctive address, and the log file is read back: every line is one `Render`
step of LogPrivacy.tla - does it show the address, does it show the hash?"""
import hashlib
import json
import os
import random
import subprocess
import sys
import tempfile

sys.path.insert(0, os.path.dirname(os.path.dirname(os.path.abspath(__file__))))
from vf import evidence, tlc, use_repo  # noqa: E402

# the harness gives its connections a rotation of peer identities: IPv4, IPv6, IPv4-mapped, 6to4 and scoped link-local addresses


def child(hashing, fmt, path, seed, runs, peer):
    use_repo()
    from pathlib import Path
    from nauyaca.utils.logging import configure_logging
    from checks.logfault import schedule
    from checks.serverconn import random_cfg
    from vf.serverconn import ConnHarness
    import logging
    logging.disable(logging.NOTSET)
    # (the harness modules silence logging when they are imported: the real pipeline is configured after them)
    configure_logging(log_level="DEBUG", log_file=Path(path), json_logs=(fmt == "json"), hash_ips=hashing)
    rnd = random.Random(seed)
    for _ in range(runs):
        cfg = random_cfg(rnd)
        cfg["mw"] = tuple(cfg["mw"])
        h = ConnHarness(cfg, seed=seed)
        try:
            try:
                schedule(h, cfg, random.Random(rnd.randrange(1 << 30)))
            except Exception:  # noqa: BLE001
                pass
        finally:
            h.close()


def main():
    rep = evidence.Report("LogPrivacy", "model_checking")
    rep.extension = True
    thorough = rep.tier == "thorough"
    work = tempfile.mkdtemp(prefix="vf-logpriv-")
    try:
        r = tlc.run("LogPrivacy", "MC_LogPrivacy.cfg", timeout=300)
        rep.tlc("LogPrivacy(design)", r)
        if not r.ok:
            raise tlc.TLCError("design variant of LogPrivacy violates %s" % r.violated)
        st_ = []
        for dev, caught, violated in tlc.expect_caught("LogPrivacy", "MC_LogPrivacy.cfg", {"DevOtherKey": ["NoAddressWhenHashing"], "DevInText": ["NoAddressWhenHashing"]}, timeout=300):
            st_.append({"deviation": dev, "caught_by": caught})
            if caught is None:
                raise tlc.TLCError("self-test: %s not caught (%s)" % (dev, violated))
        rep.set("deviation_selftests", st_)
        total = 0
        events = {}
        for hashing in (True, False):
            for fmt in ("console", "json"):
                for peer in ("rotation",):
                    from vf.serverconn import IDENTITIES
                    addrs = sorted({i[1][0] for i in IDENTITIES})
                    path = os.path.join(work, "log-%s-%s.txt" % (hashing, fmt))
                    p = subprocess.run([sys.executable, os.path.abspath(__file__), "--child", "1" if hashing else "0", fmt, path,
                                        str(rep.seed * 31 + 5), str(1500 if thorough else 300), peer], capture_output=True, text=True, timeout=1800)
                    if p.returncode != 0:
                        raise tlc.TLCError("child failed: %s" % p.stderr[-400:])
                    with open(path, encoding="utf-8", errors="replace") as f:
                        lines = [ln for ln in f.read().split("\n") if ln.strip()]
                    if len(lines) < 50:
                        raise tlc.TLCError("vacuity: only %d log lines for hashing=%s format=%s" % (len(lines), hashing, fmt))
                    digests = [hashlib.sha256(a.encode()).hexdigest()[:12] for a in addrs]
                    with_hash = with_addr = 0
                    for ln in lines:
                        total += 1
                        shows = any(a in ln for a in addrs)
                        with_addr += shows
                        with_hash += any(dg in ln for dg in digests)
                        if fmt == "json":
                            try:
                                ev = json.loads(ln).get("event", "?")
                            except ValueError:
                                ev = "?"
                            events[ev] = events.get(ev, 0) + 1
                        if hashing and shows:
                            rep.violation({"formula": "NoAddressWhenHashing", "module": "LogPrivacy"},
                                          "['NoAddressWhenHashing'] falsified: with address hashing on (%s format) the log has the line %r" % (fmt, ln[:300]), None)
                    if hashing and with_hash == 0:
                        rep.violation({"formula": "NoAddressWhenHashing", "module": "LogPrivacy"},
                                      "['NoAddressWhenHashing'] falsified: with address hashing on (%s format) no line carries the hash of the address (%d lines)" % (fmt, len(lines)), None)
                    if not hashing and with_addr == 0:
                        rep.violation({"formula": "AddressWhenAsked", "module": "LogPrivacy"},
                                      "['AddressWhenAsked'] falsified: with hashing off (%s format) no line shows the address (%d lines)" % (fmt, len(lines)), None)
        rep.add("log_lines_judged", total)
        rep.add("traces_validated_against_impl", total)
        rep.set("log_events_seen", events)
        rep.assume("the loggers of server/protocol.py only (the protocol object on a fake transport); the TLS pump's and start_server's own log calls use the same key and are not driven here")
        sys.exit(rep.finish())
    except tlc.TLCError as e:
        evidence.machinery_failure("LogPrivacy", e)
    finally:
        import shutil
        shutil.rmtree(work, ignore_errors=True)


if __name__ == "__main__":
    if len(sys.argv) > 1 and sys.argv[1] == "--child":
        child(sys.argv[2] == "1", sys.argv[3], sys.argv[4], int(sys.argv[5]), int(sys.argv[6]), sys.argv[7])
    else:
        main()
