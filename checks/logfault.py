"""Logging must never alter what the client receives (part of C01 and C06): the real GeminiServerProtocol is run on random
configurations and schedules of spec/ServerConn.tla while the k-th call into its logger raises (disk full, closed pipe,
an encoding error of the log stream) - for every k the run reaches.  Only the safety formulas are judged (a failing log may
cost the response; it must never add to it): OneResponse (at most one response on the wire), WellFormed, NeverTorn."""
import os
import random
import sys

sys.path.insert(0, os.path.dirname(os.path.dirname(os.path.abspath(__file__))))
from vf import evidence, tlc, use_repo  # noqa: E402

use_repo()
from nauyaca.server import protocol as srvproto  # noqa: E402
from vf.serverconn import ConnHarness  # noqa: E402


class FaultyLogger:
    def __init__(self, real, k, exc):
        self.real, self.k, self.n, self.exc = real, k, 0, exc

    def __getattr__(self, name):
        real = getattr(self.real, name)
        if not callable(real):
            return real

        def f(*a, **kw):
            i = self.n
            self.n += 1
            if i == self.k:
                raise self.exc
            return real(*a, **kw)
        return f


def schedule(h, cfg, rnd):
    """A random schedule of the model's actions (as in the trace runs), then the canonical continuation."""
    for _ in range(rnd.randint(1, 8)):
        opts = []
        if not h.tr.lost:
            opts += [("Data", p) for p in cfg["s"]["cuts"] if p > h.delivered] * 2
        if h.mw_waiting():
            opts += [("MwStep", None)] * 3
        if h.h_waiting() and cfg["h"]["out"] != "never":
            opts += [("HandlerComplete", None)] * 3
        if h.loop.next_timer() is not None:
            opts.append(("TimerFire", None))
        if h.tr.pending_lost is not None and not h.tr.lost:
            opts.append(("ConnectionLost", None))
        if not opts:
            break
        a, p = rnd.choice(opts)
        h.do(a, *([p] if a == "Data" else []))
    for _ in h.drain():
        pass
    return h.project()


def main(pid, rep=None, finish=True):
    from checks.serverconn import random_cfg
    rep = rep or evidence.Report(pid, "fault_enumeration")
    thorough = rep.tier == "thorough"
    rnd = random.Random(rep.seed * 611 + 7)
    n = 0
    orig = srvproto.logger
    try:
        for i in range(6000 if thorough else 1500):
            cfg = random_cfg(rnd)
            cfg["mw"] = tuple(cfg["mw"])
            seed = rnd.randrange(1 << 30)
            # fault-free run with a counting logger: how many log calls this execution makes
            counter = FaultyLogger(orig, -1, None)
            srvproto.logger = counter
            h = ConnHarness(cfg, seed=rep.seed)
            try:
                schedule(h, cfg, random.Random(seed))
            finally:
                h.close()
            for k in range(counter.n):
                exc = rnd.choice([OSError(28, "No space left on device"), BrokenPipeError(32, "Broken pipe"),
                                  UnicodeEncodeError("ascii", "café", 3, 4, "ordinal not in range(128)"), ValueError("I/O operation on closed file")])
                srvproto.logger = FaultyLogger(orig, k, exc)
                h = ConnHarness(cfg, seed=rep.seed)
                try:
                    try:
                        o = schedule(h, cfg, random.Random(seed))
                    except Exception:  # noqa: BLE001 - an action was no longer possible after the fault: judge what is on the wire
                        o = h.project()
                finally:
                    h.close()
                n += 1
                bad = []
                if len(o["wire"]) > 1:
                    bad.append("OneResponse")
                # torn = an exception escaped a callback while only PART of a response is on the wire; a log call that fails after
                # the whole response has been written and the connection closed has torn nothing
                whole = len(o["wire"]) == 1 and o["tp"] != "open" and \
                    (o["wire"][0][1] or not (20 <= o["wire"][0][0] <= 29) or cfg["h"]["out"] == "ok20empty")
                if o["torn"] and not whole:
                    bad.append("NeverTorn")
                for (st, body, meta_ok) in o["wire"]:
                    if not meta_ok or not (10 <= st <= 69) or (body and not 20 <= st <= 29):
                        bad.append("WellFormed")
                if bad:
                    rep.violation({"formula": bad[0], "logfault": True, "cls": cfg["s"]["cls"]},
                                  "%s falsified when log call #%d of the connection raises %r: cfg=%s: the client received %s" % (
                                      bad, k, exc, {"s": cfg["s"], "mw": list(cfg["mw"]), "h": cfg["h"]}, o["wire"]), None)
        rep.add("log_fault_runs", n)
        rep.add("traces_validated_against_impl", n)
        rep.assume("log faults: every call into server/protocol.py's logger is a fault point; only OneResponse / WellFormed / NeverTorn are judged under them")
        if finish:
            sys.exit(rep.finish())
    except tlc.TLCError as e:
        evidence.machinery_failure(pid, e)
    finally:
        srvproto.logger = orig


if __name__ == "__main__":
    main(sys.argv[1] if len(sys.argv) > 1 else "C01")
