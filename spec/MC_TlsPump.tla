---- MODULE MC_TlsPump ----
EXTENDS TlsPump
I(k, n) == [k |-> k, plen |-> n]
\* request line "gemini://localhost/x" + CRLF = 22 bytes
MCClient == { <<I("hs",0), I("hs",0), I("app",22)>>,
              <<I("hs",0), I("hs",0), I("app",22), I("app",20000), I("app",100)>>,
              <<I("hs",0), I("hs",0), I("app",10), I("app",12), I("close",0)>>,
              <<I("hs",0), I("hs",0), I("app",10), I("app",12), I("app",9000)>>,
              <<I("hs",0)>>, <<I("hs",0), I("hs",0)>>, <<>>,
              <<I("junk",0)>>, <<I("hs",0), I("junk",0)>>, <<I("hs",0), I("hs",0), I("junk",0)>> }
\* inner protocol: after the 22-byte request line, header (29 bytes) and a body of n bytes, then close
MCReplies == { [after |-> 22, writes |-> ws] : ws \in { <<29>>, <<29, 1>>, <<29, 16383>>, <<29, 16384>>, <<29, 16385>>, <<29, 40000>>, <<29, 1000000>> } }
====
