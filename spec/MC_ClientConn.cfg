SPECIFICATION Spec
CONSTANTS
  Scripts <- GenScripts
  Eps = {"get", "upload"}
  Cap = 10485760
  Tofu = {"off", "first", "match", "changed", "unreadable"}
  DevSendInConnectionMade = FALSE
  DevLookupErrorEscapes = FALSE
  DevNonSuccessAtClose = FALSE
  DevUnreadableSkipsCheck = FALSE
INVARIANT NothingBeforeVerify
INVARIANT ChangedGetsNothing
INVARIANT PromptOnClose
INVARIANT Faithful
INVARIANT SegIndep
INVARIANT Capped
PROPERTY Terminates
CHECK_DEADLOCK FALSE
