INIT OInit
NEXT ONext
CONSTANTS
  MaxReq = 1024
  Streams = {}
  Chains = {}
  HOutcomes = {}
  Uploads = {}
  DataAfterClose = TRUE
  DevNoDispatchedFlag = FALSE
  DevTitanSkipsChain = FALSE
  DevSilentDeny = FALSE
  DevVerbatimRefusal = FALSE
  DevRawResponse = FALSE
CONSTRAINT Report
CHECK_DEADLOCK FALSE
