---- MODULE MC_TofuStore ----
EXTENDS TofuStore
E(h, fp, ok) == [h |-> h, fp |-> fp, ok |-> ok]
IH == {"h1", "h2"}      \* hosts named in import files (single-statement operations range over all hosts)
EntrySets == {<<>>} \cup { <<E(h, f, ok)>> : h \in IH, f \in Fps, ok \in BOOLEAN }
   \cup { <<E(h1, f1, ok1), E(h2, f2, ok2)>> : h1 \in IH, h2 \in IH, f1 \in Fps, f2 \in Fps, ok1 \in BOOLEAN, ok2 \in BOOLEAN }
MCOps == { [kind |-> k, h |-> h, fp |-> f, merge |-> TRUE, entries |-> <<>>, policy |-> "skip"] : k \in {"trust", "revoke", "revokeName", "revokeNoPort", "clear"}, h \in Hosts, f \in Fps }
   \cup { [kind |-> "import", h |-> "h1", fp |-> "f1", merge |-> m, entries |-> es, policy |-> p] : m \in BOOLEAN, es \in EntrySets, p \in {"skip", "update", "raise"} }
====
