SPECIFICATION Spec
CONSTANTS
  MaxSegs = 4
  DevTruncateInPlace = FALSE
  DevLoopLexical = FALSE
  LoopInstance = TRUE
INVARIANT OnlyInside
INVARIANT Authorised
INVARIANT NonSuccessLeavesTreeUnchanged
INVARIANT SuccessChangesExactlyTarget
CHECK_DEADLOCK FALSE
