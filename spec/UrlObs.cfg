INIT OInit
NEXT ONext
CONSTRAINT Report
CHECK_DEADLOCK FALSE
