---------------------------- MODULE ClientConn ----------------------------
(* One client call of nauyaca: GeminiClient._get_single / upload over
   GeminiClientProtocol / TitanClientProtocol, after the TCP+TLS connect succeeded.
   One action per asyncio callback; the server is a script (bytes, then how it ends). *)
EXTENDS Naturals, Sequences, FiniteSets, TLC
CONSTANTS Scripts,              \* set of server scripts (records, see MC)
          Cap,                  \* MAX_RESPONSE_BODY_SIZE = 10 MiB
          Tofu,                 \* set of pin situations: "off","first","match","changed","unreadable"
          DevSendInConnectionMade, DevLookupErrorEscapes, DevUnreadableSkipsCheck
VARIABLES cfg,       \* [sc: script, tofu: situation]
          sentReq,   \* request bytes have left the client (peer may have them)
          verified,  \* pin check passed (or TOFU off)
          rx,        \* response bytes handed to data_received
          hdr,       \* "none" | "ok" | "bad"      header parsed?
          status,    \* parsed status or 0
          cliClosed, \* client called transport.close()
          lost,      \* connection_lost delivered
          fut,       \* [k: "pending"|"result"|"exc", why: STRING, body: Nat]
          caller     \* what get()/upload() gave back: "waiting" | "response" | "error:<why>"
vars == <<cfg, sentReq, verified, rx, hdr, status, cliClosed, lost, fut, caller>>
SC == cfg.sc
Total(s) == s.hdrLen + (IF s.crlf THEN 2 ELSE 0) + s.bodyLen
CrlfIn(s, p) == s.crlf /\ p >= s.hdrLen + 2
BodyGot(s, p) == IF CrlfIn(s, p) THEN p - (s.hdrLen + 2) ELSE p     \* bytes in buffer after header split (or whole buffer)
AllCuts == UNION {s.cuts : s \in Scripts}
Pending == [k |-> "pending", why |-> "", body |-> 0]
Exc(w) == [k |-> "exc", why |-> w, body |-> 0]
SetError(w) == fut' = IF fut.k = "pending" THEN Exc(w) ELSE fut

\* ---- session: after create_connection returned -------------------------------
\* connection_made runs inside create_connection: current code writes the request there
Init == /\ cfg \in [sc : Scripts, tofu : Tofu]
        /\ sentReq = DevSendInConnectionMade /\ verified = FALSE
        /\ rx = 0 /\ hdr = "none" /\ status = 0 /\ cliClosed = FALSE /\ lost = FALSE
        /\ fut = Pending /\ caller = "waiting"

Verify ==   \* the TOFU block of _get_single / upload
  /\ ~verified /\ caller = "waiting" /\ ~lost
  /\ UNCHANGED <<cfg, rx, hdr, status, lost, fut>>
  /\ CASE cfg.tofu \in {"off", "first", "match"} ->
            /\ verified' = TRUE /\ sentReq' = TRUE /\ UNCHANGED <<cliClosed, caller>>
       [] cfg.tofu = "changed" ->
            /\ caller' = "error:CertificateChanged" /\ cliClosed' = TRUE /\ UNCHANGED <<verified, sentReq>>
       [] cfg.tofu = "unreadable" ->
            IF DevUnreadableSkipsCheck
              THEN verified' = TRUE /\ sentReq' = TRUE /\ UNCHANGED <<cliClosed, caller>>
              ELSE caller' = "error:CertificateUnreadable" /\ cliClosed' = TRUE /\ UNCHANGED <<verified, sentReq>>

\* ---- protocol callbacks -------------------------------------------------------
Rx(p) ==
  /\ sentReq /\ p \in SC.cuts /\ p > rx /\ p <= SC.sendLen /\ ~lost /\ ~cliClosed
  /\ rx' = p
  /\ UNCHANGED <<cfg, sentReq, verified, caller>>
  /\ IF hdr = "none" /\ CrlfIn(SC, p) THEN
        IF SC.hdrCls = "badUtf8" THEN      \* decode raises out of data_received: transport aborts
             /\ hdr' = "bad" /\ lost' = TRUE /\ SetError("UnicodeDecodeError") /\ UNCHANGED <<status, cliClosed>>
        ELSE IF SC.hdrCls = "badStatus" THEN
             /\ hdr' = "bad" /\ SetError("ValueError:status") /\ cliClosed' = TRUE /\ UNCHANGED <<status, lost>>
        ELSE /\ hdr' = "ok" /\ status' = SC.status /\ UNCHANGED lost
             /\ IF SC.status \notin 10..69 THEN SetError("ValueError:range") /\ cliClosed' = TRUE
                ELSE IF SC.status \notin 20..29 THEN cliClosed' = TRUE /\ UNCHANGED fut
                ELSE IF BodyGot(SC, p) > Cap THEN SetError("TooLarge") /\ cliClosed' = TRUE
                ELSE UNCHANGED <<fut, cliClosed>>
     ELSE /\ UNCHANGED <<hdr, status, lost>>
          /\ IF BodyGot(SC, p) > Cap THEN SetError("TooLarge") /\ cliClosed' = TRUE
             ELSE UNCHANGED <<fut, cliClosed>>

Finish(excKind) ==   \* body of connection_lost(exc)
  IF fut.k # "pending" THEN UNCHANGED fut
  ELSE IF excKind # "none" THEN fut' = Exc(excKind)
  ELSE IF hdr = "none" THEN fut' = Exc("ConnectionError:closedBeforeHeader")
  ELSE IF status \in 20..29 THEN
       IF SC.text THEN
            IF SC.charset = "unknown" THEN
                 IF DevLookupErrorEscapes THEN UNCHANGED fut ELSE fut' = Exc("LookupError")
            ELSE IF ~SC.bodyOK THEN fut' = Exc("UnicodeDecodeError")
            ELSE fut' = [k |-> "result", why |-> "text", body |-> BodyGot(SC, rx)]
       ELSE fut' = [k |-> "result", why |-> "bytes", body |-> BodyGot(SC, rx)]
  ELSE fut' = [k |-> "result", why |-> "nobody", body |-> 0]

PeerEnds ==          \* server finished its script: FIN or RST (never = no such step)
  /\ ~lost /\ rx = SC.sendLen /\ SC.ends \in {"fin", "rst"} /\ sentReq
  /\ lost' = TRUE /\ Finish(IF SC.ends = "rst" THEN "ConnectionResetError" ELSE "none")
  /\ UNCHANGED <<cfg, sentReq, verified, rx, hdr, status, cliClosed, caller>>

LostAfterClose ==    \* the loop's connection_lost(None) after the client's own close()
  /\ ~lost /\ cliClosed
  /\ lost' = TRUE /\ Finish("none")
  /\ UNCHANGED <<cfg, sentReq, verified, rx, hdr, status, cliClosed, caller>>

Deliver ==           \* await wait_for(response_future) returns / raises
  /\ caller = "waiting" /\ verified /\ fut.k # "pending"
  /\ caller' = IF fut.k = "result" THEN "response" ELSE "error:" \o fut.why
  /\ cliClosed' = TRUE
  /\ UNCHANGED <<cfg, sentReq, verified, rx, hdr, status, lost, fut>>

Deadline ==          \* wait_for timeout
  /\ caller = "waiting" /\ verified /\ fut.k = "pending"
  /\ caller' = "error:Timeout" /\ cliClosed' = TRUE
  /\ UNCHANGED <<cfg, sentReq, verified, rx, hdr, status, lost, fut>>

Next == Verify \/ (\E p \in AllCuts : Rx(p)) \/ PeerEnds \/ LostAfterClose \/ Deliver \/ Deadline
Spec == Init /\ [][Next]_vars /\ WF_vars(Verify) /\ WF_vars(PeerEnds) /\ WF_vars(LostAfterClose)
             /\ WF_vars(Deliver) /\ WF_vars(Deadline)

\* ---- properties -----------------------------------------------------------------
NothingBeforeVerify == sentReq => verified                                          \* C11
ChangedGetsNothing  == cfg.tofu \in {"changed", "unreadable"} => ~sentReq /\ caller # "response"   \* C11, C03
PromptOnClose == (lost /\ verified) => fut.k # "pending"                            \* C13
Terminates == <>(caller # "waiting")                                                \* C13
Faithful == caller = "response" =>                                                  \* C13
   /\ SC.hdrCls = "ok" /\ status \in 10..69
   /\ (fut.why = "nobody") = (status \notin 20..29)
   /\ status \in 20..29 => fut.body = BodyGot(SC, rx) /\ fut.body <= Cap
\* the outcome does not depend on the cut points: it is a function of the script alone
Expected(s) ==
  IF ~s.crlf \/ s.sendLen < s.hdrLen + 2 THEN
        IF s.sendLen > Cap THEN {"error:TooLarge"} ELSE
        IF s.ends = "never" THEN {"error:Timeout"} ELSE IF s.ends = "rst" THEN {"error:ConnectionResetError"} ELSE {"error:ConnectionError:closedBeforeHeader"}
  ELSE IF s.hdrCls = "badUtf8" THEN {"error:UnicodeDecodeError"}
  ELSE IF s.hdrCls = "badStatus" THEN {"error:ValueError:status"}
  ELSE IF s.status \notin 10..69 THEN {"error:ValueError:range"}
  ELSE IF s.status \notin 20..29 THEN {"response"}
  ELSE IF s.sendLen - (s.hdrLen + 2) > Cap THEN {"error:TooLarge"}
  ELSE IF s.ends = "never" THEN {"error:Timeout"}
  ELSE IF s.ends = "rst" THEN {"error:ConnectionResetError"}
  ELSE IF s.text /\ s.charset = "unknown" THEN {"error:LookupError"}
  ELSE IF s.text /\ ~s.bodyOK THEN {"error:UnicodeDecodeError"}
  ELSE {"response"}
SegIndep == (caller \notin {"waiting", "error:Timeout", "error:CertificateChanged", "error:CertificateUnreadable"})
               => caller \in Expected(SC)
=============================================================================
