---------------------------- MODULE RedirectObs ----------------------------
(* Observation specification for Redirect (C16): random redirect graphs over up to seven URLs, realised by scripted peers
   against the real GeminiClient.get, are judged by TLC: the reference walk of Redirect.tla is evaluated on the recorded graph
   and compared with what the client did.
     case = [G: [u1 .. u7 -> [k, to]], start, max, follow, result, conns]   (URLs outside the graph answer "final")     *)
EXTENDS Redirect, Json, IOUtils, TLCExt
Cases == JsonDeserialize(IOEnv.TRACE_FILE)
VARIABLES tid, l
C == Cases[tid]
GOf(r) == [u \in Urls |-> CASE u = "u1" -> r.u1 [] u = "u2" -> r.u2 [] u = "u3" -> r.u3 [] u = "u4" -> r.u4
                            [] u = "u5" -> r.u5 [] u = "u6" -> r.u6 [] OTHER -> r.u7]
OInit == /\ tid \in 1..Len(Cases) /\ l = 1
         /\ G = GOf(Cases[tid].G) /\ max = Cases[tid].max /\ follow = Cases[tid].follow
         /\ cur = Cases[tid].start /\ chain = <<>> /\ conns = 0 /\ requested = {} /\ result = "running"
ONext == /\ l = 1 /\ l' = 2 /\ UNCHANGED <<tid, G, max, follow, cur, chain, requested>>
         /\ result' = C.result /\ conns' = C.conns
\* number of connections of the reference walk
RECURSIVE WalkConns(_, _, _)
WalkConns(u, seen, n) ==
  IF u \in seen \/ n > max THEN 0
  ELSE LET a == G[u] IN IF a.k = "redirect" THEN 1 + WalkConns(a.to, seen \cup {u}, n + 1) ELSE 1
RefResult == IF follow THEN Walk(cur, {}, 0) ELSE (IF G[cur].k = "final" THEN "final" ELSE "redirect-returned")
RefConns == IF follow THEN WalkConns(cur, {}, 0) ELSE 1
CorrectObs == l = 2 => result = RefResult
ConnsObs == l = 2 => conns = RefConns
BoundedObs == l = 2 => conns <= max + 1
Flags == << CorrectObs, ConnsObs, BoundedObs >>
Report == PrintT(<<"REACHED", tid, l, 2, Flags>>)
=============================================================================
