SPECIFICATION Spec
CONSTANTS
  Urls = {"u1", "u2", "u3"}
  MaxMax = 3
  DevOffByOne = FALSE
INVARIANT Bounded
INVARIANT OnlyListed
INVARIANT Correct
INVARIANT NoFollowSingle
PROPERTY Terminates
CHECK_DEADLOCK FALSE
