---------------------------- MODULE TlsPump ----------------------------
(* TLSServerProtocol + TLSTransportWrapper (server/tls_protocol.py): the hand-written TLS pump of the PyOpenSSL
   backend.  The OpenSSL engine is abstracted to what the pump can observe: the client's ciphertext is a sequence
   of items (handshake flights, application records, close_notify, junk); an item takes effect when its last byte
   has been fed.  One action per asyncio callback of the outer protocol:

     Cipher(upto, leaveHalf)   data_received: one TCP read completes items fed+1..upto (and may leave item upto+1
                               partly fed).  Everything the pump does in that callback is part of the step: the
                               handshake, creating the inner protocol, the recv(8192) loop that hands ALL decrypted
                               plaintext to the inner protocol (also after the inner protocol has answered and
                               closed), the inner protocol's answer (write x n, close), flushing, TCP close.
     HsTimerFire               the handshake timer
     TcpLost                   connection_lost from the TCP transport

   C06 (complete, unaltered responses), C07 (plaintext handed over completely and in order whatever the TCP
   segmentation, incl. application data coalesced with the end of the handshake), C15 (handshake timeout),
   C20 (nothing reaches the inner protocol without a completed handshake).                                   *)
EXTENDS Naturals, Sequences, FiniteSets, TLC
CONSTANTS Client,          \* set of client scripts: Seq of items [k: "hs"|"app"|"close"|"junk", plen: Nat]
          Replies,         \* inner protocol behaviours: [after: Nat, writes: Seq(Nat)]
                           \*   "after `after` plaintext bytes the inner protocol writes these buffers and closes"
          RecordMax,       \* 16384: send() encrypts at most this much per call
          DevSingleSendCall,          \* deviation: one send() per write(), return value ignored
          DevNoHsTimer,               \* deviation: no timer until the handshake has completed
          DevReadOnceAfterHandshake,  \* deviation: after the handshake only one recv(8192) is attempted
          DevPlainTimeoutReply,       \* deviation: the handshake timeout writes "40 ..." to the TCP transport, unencrypted
          DevCloseBeforeDeliver       \* deviation: plaintext of a read is handed over after the read's close_notify was acted on
VARIABLES cfg, fed, half, hs, hsTimer, innerUp, plainIn, replied, submitted, tcp, clientGot, closeNotify,
          rawOut      \* the server has put bytes on the TCP connection that are not TLS records
vars == <<cfg, fed, half, hs, hsTimer, innerUp, plainIn, replied, submitted, tcp, clientGot, closeNotify, rawOut>>
Items == cfg.c
NeedHs == 2            \* client flights needed (ClientHello, Finished)
RecvMax == 8192
Min(a, b) == IF a < b THEN a ELSE b
RECURSIVE SumSeq(_)
SumSeq(s) == IF s = <<>> THEN 0 ELSE Head(s) + SumSeq(Tail(s))
AppBytes(lo, hi) == SumSeq([i \in 1..(hi - lo + 1) |-> IF Items[lo + i - 1].k = "app" THEN Items[lo + i - 1].plen ELSE 0])

Init == /\ cfg \in [c : Client, r : Replies]
        /\ fed = 0 /\ half = FALSE /\ hs = "pending" /\ hsTimer = (IF DevNoHsTimer THEN "none" ELSE "armed")
        /\ innerUp = FALSE /\ plainIn = 0 /\ replied = FALSE /\ submitted = 0
        /\ tcp = "open" /\ clientGot = 0 /\ closeNotify = FALSE /\ rawOut = FALSE

Cipher(upto, leaveHalf) ==
  /\ tcp = "open"
  /\ upto \in fed..Len(Items) /\ (upto > fed \/ (leaveHalf /\ ~half))
  /\ (leaveHalf => upto < Len(Items) /\ Items[upto + 1].k # "junk")    \* the first bytes of non-TLS input already fail
  \* the handshake is interactive: the client's second flight answers the server's, so it cannot arrive in the same read as the first
  /\ ~(fed = 0 /\ upto >= 2 /\ Len(Items) >= 2 /\ Items[1].k = "hs" /\ Items[2].k = "hs")
  /\ fed' = upto /\ half' = leaveHalf
  /\ LET new == SubSeq(Items, fed + 1, upto)
         junk == \E i \in 1..Len(new) : new[i].k = "junk"
         \* items of this read that are processed: everything before the first junk item
         upj  == IF junk THEN fed + (CHOOSE i \in 1..Len(new) : new[i].k = "junk" /\ \A j \in 1..(i - 1) : new[j].k # "junk") - 1
                 ELSE upto
         pre  == SubSeq(Items, fed + 1, upj)
         nHs  == Cardinality({i \in 1..upj : Items[i].k = "hs"})
         completes == hs = "pending" /\ nHs >= NeedHs
         done == hs = "done" \/ completes
         apps == AppBytes(fed + 1, upj)
         \* plaintext handed to the inner protocol in this callback
         handed == IF ~done \/ (DevCloseBeforeDeliver /\ \E i \in 1..Len(pre) : pre[i].k = "close") THEN 0
                   ELSE IF completes /\ DevReadOnceAfterHandshake THEN
                        Min(RecvMax, IF \E i \in 1..Len(pre) : pre[i].k = "app"
                                       THEN pre[CHOOSE i \in 1..Len(pre) : pre[i].k = "app" /\ \A j \in 1..(i - 1) : pre[j].k # "app"].plen
                                       ELSE 0)
                   ELSE apps
         closes == \E i \in 1..Len(pre) : pre[i].k = "close"
         answers == done /\ ~replied /\ plainIn + handed >= cfg.r.after
         total == SumSeq(cfg.r.writes)
         enc == IF DevSingleSendCall
                  THEN SumSeq([i \in 1..Len(cfg.r.writes) |-> Min(cfg.r.writes[i], RecordMax)])
                  ELSE total IN
     IF junk /\ ~done THEN        \* SSL.Error in do_handshake: _close_with_error
          /\ hs' = "failed" /\ tcp' = "closing"
          /\ UNCHANGED <<innerUp, hsTimer, plainIn, replied, submitted, clientGot, closeNotify>>
     ELSE /\ hs' = IF done THEN "done" ELSE hs
          /\ innerUp' = (innerUp \/ done)
          /\ hsTimer' = IF done /\ hsTimer = "armed" THEN "off" ELSE hsTimer
          /\ plainIn' = plainIn + handed
          /\ IF answers
               THEN /\ replied' = TRUE /\ submitted' = total /\ clientGot' = enc
                    /\ closeNotify' = TRUE /\ tcp' = "closing"
               ELSE /\ UNCHANGED <<replied, submitted, clientGot, closeNotify>>
                    /\ tcp' = IF done /\ (closes \/ junk) THEN "closing" ELSE tcp
  /\ UNCHANGED <<cfg, rawOut>>

HsTimerFire == /\ hsTimer = "armed" /\ hsTimer' = "fired" /\ tcp' = (IF tcp = "open" THEN "closing" ELSE tcp)
               /\ rawOut' = (rawOut \/ (DevPlainTimeoutReply /\ tcp = "open"))
               /\ UNCHANGED <<cfg, fed, half, hs, innerUp, plainIn, replied, submitted, clientGot, closeNotify>>
TcpLost == /\ tcp = "closing" /\ tcp' = "closed"
           /\ hsTimer' = (IF hsTimer = "armed" THEN "off" ELSE hsTimer)
           /\ UNCHANGED <<cfg, fed, half, hs, innerUp, plainIn, replied, submitted, clientGot, closeNotify, rawOut>>
Next == (\E u \in 0..7, h \in BOOLEAN : Cipher(u, h)) \/ HsTimerFire \/ TcpLost
Spec == Init /\ [][Next]_vars /\ WF_vars(HsTimerFire) /\ WF_vars(TcpLost)

\* ---- properties ---------------------------------------------------------------
PrefixAlways == clientGot <= submitted                                              \* C06
CompleteAtClose == closeNotify => clientGot = submitted                             \* C06
\* C01/C15: once the server has sent its close_notify the TCP connection is closed as well (it does not wait for the peer)
ClosedAfterCloseNotify == closeNotify => tcp # "open"
InnerOnlyAfterHandshake == innerUp => hs = "done"                                   \* C20
NoPlainBeforeTls == (hs # "done") => plainIn = 0                                    \* C20
\* C20: whatever arrives and whenever a timer fires, the server never answers outside TLS - no Gemini response in clear
OnlyTlsOnWire == ~rawOut
PlainInOrder == plainIn <= AppBytes(1, fed)                                         \* C07
\* C07: every byte of every completely received record has been handed to the inner protocol, however the
\* ciphertext was split into TCP reads (incl. records coalesced with the end of the handshake)
PlainComplete == (hs = "done" /\ tcp = "open") => plainIn = AppBytes(1, fed)
\* C07: a request the client has sent completely is answered whichever read its last byte shares with whatever follows it
\* (further records, the client's close_notify): the reply does not depend on where the reads fall
RequestAnswered == (hs = "done" /\ AppBytes(1, fed) >= cfg.r.after /\ \A i \in 1..fed : Items[i].k # "junk")
                      => (replied /\ clientGot = submitted)
HsTimerWhileHandshaking == (hs = "pending" /\ tcp = "open") => hsTimer = "armed"    \* C15
SilentPeerDropped == <>(hs = "done" \/ tcp # "open")                                \* C15: the handshake never hangs
=============================================================================
