---------------------------- MODULE TlsPump ----------------------------
(* TLSServerProtocol + TLSTransportWrapper (server/tls_protocol.py): the hand-written TLS pump
   of the PyOpenSSL backend.  The OpenSSL engine is abstracted to what the pump can observe:
   client ciphertext is a sequence of items (handshake flights, application records, close_notify);
   an item takes effect when its last byte has been fed; plaintext leaves the engine in recv()
   chunks of at most RecvMax bytes; send() encrypts at most RecordMax bytes per call.          *)
EXTENDS Naturals, Sequences, FiniteSets, TLC
CONSTANTS Client,          \* set of client scripts: Seq of items [k: "hs"|"app"|"close"|"junk", plen: Nat]
          Replies,         \* set of reply scripts of the inner protocol: [after: Nat, writes: Seq(Nat)]
                           \*   "after having received `after` plaintext bytes the inner protocol writes these buffers and closes"
          RecordMax, RecvMax,         \* 16384, 8192
          DevSingleSendCall,          \* current code: one send() per write(), return value ignored
          DevNoHsTimer                \* current code: no timer until the handshake has completed
VARIABLES cfg, fed, half, hs, hsTimer, innerUp, queue, plainIn, replied, submitted, encrypted,
          tcp, clientGot, closeNotify
vars == <<cfg, fed, half, hs, hsTimer, innerUp, queue, plainIn, replied, submitted, encrypted, tcp, clientGot, closeNotify>>
\* fed: number of client items completely fed; half: some (not all) bytes of item fed+1 are in the BIO
\* queue: plaintext chunk sizes produced by the current data_received call, still to be handed to the inner protocol
Items == cfg.c
NeedHs == 2            \* client flights needed (ClientHello, Finished)
RECURSIVE Chunks(_)
Chunks(n) == IF n = 0 THEN <<>> ELSE IF n <= RecvMax THEN <<n>> ELSE <<RecvMax>> \o Chunks(n - RecvMax)
Min(a, b) == IF a < b THEN a ELSE b
RECURSIVE SumSeq(_)
SumSeq(s) == IF s = <<>> THEN 0 ELSE Head(s) + SumSeq(Tail(s))

Init == /\ cfg \in [c : Client, r : Replies]
        /\ fed = 0 /\ half = FALSE /\ hs = "pending" /\ hsTimer = (IF DevNoHsTimer THEN "none" ELSE "armed")
        /\ innerUp = FALSE /\ queue = <<>> /\ plainIn = 0 /\ replied = FALSE /\ submitted = 0 /\ encrypted = 0
        /\ tcp = "open" /\ clientGot = 0 /\ closeNotify = FALSE

\* one TCP read: completes items fed+1..upto (and possibly leaves item upto+1 half-fed)
\* the client cannot send its second flight before it has seen the server's (interactive handshake)
Cipher(upto, leaveHalf) ==
  /\ tcp = "open" /\ queue = <<>>
  /\ upto \in fed..Len(Items) /\ (upto > fed \/ (leaveHalf /\ ~half))
  /\ (leaveHalf => upto < Len(Items))
  /\ fed' = upto /\ half' = leaveHalf
  /\ LET new == SubSeq(Items, fed + 1, upto)
         junk == \E i \in 1..Len(new) : new[i].k = "junk"
         nHs  == Cardinality({i \in 1..upto : Items[i].k = "hs"})
         done == hs = "done" \/ (hs = "pending" /\ ~junk /\ nHs >= NeedHs)
         apps == [i \in 1..Len(new) |-> IF new[i].k = "app" THEN new[i].plen ELSE 0]
         closes == \E i \in 1..Len(new) : new[i].k = "close" IN
     /\ IF junk /\ hs = "pending" THEN        \* SSL.Error in do_handshake: _close_with_error
             /\ hs' = "failed" /\ tcp' = "closing" /\ UNCHANGED <<innerUp, queue, hsTimer>>
        ELSE /\ hs' = IF done THEN "done" ELSE hs
             /\ innerUp' = (innerUp \/ done)
             /\ hsTimer' = IF done /\ hsTimer = "armed" THEN "off" ELSE hsTimer
             /\ queue' = IF done THEN Chunks(SumSeq(apps)) ELSE <<>>      \* recv() loop: chunks of <= RecvMax
             /\ tcp' = IF done /\ closes /\ SumSeq(apps) = 0 THEN "closing" ELSE tcp       \* ZeroReturnError: _handle_close
  /\ UNCHANGED <<cfg, plainIn, replied, submitted, encrypted, clientGot, closeNotify>>

\* one inner_protocol.data_received(chunk) inside the pump's recv loop; the inner protocol may answer
Deliver ==
  /\ queue # <<>> /\ innerUp
  /\ plainIn' = plainIn + Head(queue) /\ queue' = Tail(queue)
  /\ IF ~replied /\ plainIn + Head(queue) >= cfg.r.after THEN
         \* inner writes its buffers then closes: TLSTransportWrapper.write x n, close()
         LET total == SumSeq(cfg.r.writes)
             enc == IF DevSingleSendCall
                      THEN SumSeq([i \in 1..Len(cfg.r.writes) |-> Min(cfg.r.writes[i], RecordMax)])
                      ELSE total IN
         /\ replied' = TRUE /\ submitted' = total /\ encrypted' = enc
         /\ clientGot' = IF tcp = "open" THEN enc ELSE clientGot        \* _flush_outgoing after every send
         /\ closeNotify' = (tcp = "open") /\ tcp' = "closing"           \* shutdown(), flush, transport.close()
     ELSE UNCHANGED <<replied, submitted, encrypted, clientGot, closeNotify, tcp>>
  /\ UNCHANGED <<cfg, fed, half, hs, hsTimer, innerUp>>

HsTimerFire == /\ hsTimer = "armed" /\ hsTimer' = "fired" /\ tcp' = (IF tcp = "open" THEN "closing" ELSE tcp)
               /\ UNCHANGED <<cfg, fed, half, hs, innerUp, queue, plainIn, replied, submitted, encrypted, clientGot, closeNotify>>
TcpLost == /\ tcp = "closing" /\ queue = <<>> /\ tcp' = "closed"
           /\ hsTimer' = (IF hsTimer = "armed" THEN "off" ELSE hsTimer)
           /\ UNCHANGED <<cfg, fed, half, hs, innerUp, queue, plainIn, replied, submitted, encrypted, clientGot, closeNotify>>
Next == (\E u \in 0..6, h \in BOOLEAN : Cipher(u, h)) \/ Deliver \/ HsTimerFire \/ TcpLost
Spec == Init /\ [][Next]_vars /\ WF_vars(Deliver) /\ WF_vars(HsTimerFire) /\ WF_vars(TcpLost)

\* ---- properties ---------------------------------------------------------------
PrefixAlways == clientGot <= submitted                                              \* C06
CompleteAtClose == closeNotify => clientGot = submitted                             \* C06
InnerOnlyAfterHandshake == innerUp => hs = "done"                                   \* C20
NoPlainBeforeTls == (hs # "done") => plainIn = 0                                    \* C20
PlainInOrder == plainIn <= SumSeq([i \in 1..fed |-> IF Items[i].k = "app" THEN Items[i].plen ELSE 0])   \* C07
SilentPeerDropped == <>(hs = "done" \/ tcp # "open")                                \* C15: handshake never hangs
=============================================================================
