SPECIFICATION Spec
CONSTANTS
  DevForceOnlyCert = FALSE
INVARIANT NoClobber
INVARIANT PairOrNothing
INVARIANT FailureIsQuiet
CHECK_DEADLOCK FALSE
