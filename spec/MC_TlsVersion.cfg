SPECIFICATION Spec
CONSTANTS
  DevDefaultFloor = {}
  DevSwallowKeyFault = {}
INVARIANT NoOldVersion
INVARIANT PlaintextGetsNothing
INVARIANT ModernAccepted
CHECK_DEADLOCK FALSE
