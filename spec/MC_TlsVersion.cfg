SPECIFICATION Spec
CONSTANTS
  DevDefaultFloor = {}
INVARIANT NoOldVersion
INVARIANT PlaintextGetsNothing
INVARIANT ModernAccepted
CHECK_DEADLOCK FALSE
