------------------------------ MODULE ServeCli ------------------------------
(* `nauyaca serve` (nauyaca/__main__.py): where the running server's settings come from.  Three sources per setting -
   environment (the NAUYACA_ variables), command line, TOML file - with the precedence the command documents (ENV > CLI > TOML >
   default), the validation each source gets, and the security settings of the file (access control, rate limit,
   certificate rules) reaching start_server.  Extension beyond the listed properties; it continues Assembly.tla (what
   start_server builds from a configuration) one step towards the operator: C05 / C09 / C10 hold for a deployment only if
   what the operator wrote is what start_server is given.

   Modelled as built.  Two things the code does that an operator would not expect are explicit:
     * validation happens when the configuration object is constructed - from the file alone if there is one, else from the
       command line (and the environment's document root); everything laid over it afterwards with setattr - the
       environment always, the command line when there is a file - is never validated, and a value of the file that is
       overridden is validated all the same (AsBuiltOverridesUnvalidated): a port out of range, a document root that does not exist (a certificate without its key is
       still refused, by start_server's own validate());
     * --require-client-cert is dropped when the file has certificate rules of its own (AsBuiltFlagYieldsToRules), and
       without such rules it ends the command with an internal error before anything starts (AsBuiltRequireFlagCrashes:
       the configuration object it tries to build has no such field) - the flag has no working use.
   With both constants FALSE the module describes the command an operator expects; StartedOnlyValid and RequireFlagInForce
   hold there and fail as built (shown by the check's self-test, reported as observations, not as violations).           *)
EXTENDS Naturals, TLC
CONSTANTS AsBuiltOverridesUnvalidated, AsBuiltFlagYieldsToRules, AsBuiltRequireFlagCrashes,
          AsBuiltHashFlagShadowsFile,   \* the command always passes its own --hash-ips default on: `[logging] hash_ips = false` in the file never takes effect
          DevCliBeatsEnv,            \* deviation: the command line wins over the environment
          DevFileSecurityDropped     \* deviation: the file's access control / rate limit / rules do not reach start_server
Val   == {"absent", "good", "bad"}      \* per source: not given / a valid value (distinct per source) / an invalid one
Pairs == {"none", "both", "certonly"}   \* certificate and key from one source
VARIABLES envPort, cliPort, filePort,   \* port
          envRoot, cliRoot, fileRoot,   \* document root ("bad" = a directory that does not exist)
          envPair, cliPair, filePair,   \* certificate + key
          file,                         \* "none" | "plain" | "secured" (access control, rate limit, certificate rules)
          flagRequire,                  \* --require-client-cert
          fileHash, flagHash,           \* [logging] hash_ips in the file ("unset" | "off"); "default" | "--hash-ips" | "--no-hash-ips"
          out
vars == <<envPort, cliPort, filePort, envRoot, cliRoot, fileRoot, envPair, cliPair, filePair, file, flagRequire, fileHash, flagHash, out>>
Pending == [k |-> "pending"]
Init == /\ envPort \in Val /\ cliPort \in Val /\ filePort \in Val
        /\ envRoot \in Val /\ cliRoot \in {"absent", "good"}   \* (the command line refuses a missing directory by itself)
        /\ fileRoot \in {"good", "bad"}                        \* (the file format requires the entry)
        /\ envPair \in Pairs /\ cliPair \in Pairs /\ filePair \in Pairs
        /\ file \in {"none", "plain", "secured"} /\ flagRequire \in BOOLEAN
        /\ fileHash \in {"unset", "off"} /\ flagHash \in {"default", "--hash-ips", "--no-hash-ips"}
        /\ (file = "none" => (filePort = "absent" /\ fileRoot = "good" /\ filePair = "none" /\ fileHash = "unset"))
        /\ ((fileHash # "unset" \/ flagHash # "default") => (envPort = "absent" /\ cliPort = "absent" /\ filePort = "absent" /\ envRoot = "absent" /\ ~flagRequire))
        \* sweep: one setting varies over its sources at a time (the settings do not interact, except through refusal)
        /\ \/ (envRoot = "absent" /\ cliRoot = "good" /\ envPair = "none" /\ cliPair = "none" /\ filePair = "none" /\ fileRoot = "good")
           \/ (envPort = "absent" /\ cliPort = "absent" /\ filePort = "absent" /\ envPair = "none" /\ cliPair = "none" /\ filePair = "none")
           \/ (envPort = "absent" /\ cliPort = "absent" /\ filePort = "absent" /\ envRoot = "absent" /\ cliRoot = "good" /\ fileRoot = "good")
        /\ out = Pending
\* which source a setting is taken from
First(e, c, f) == IF DevCliBeatsEnv
                  THEN (IF c # "absent" THEN "cli" ELSE IF e # "absent" THEN "env" ELSE IF f # "absent" /\ file # "none" THEN "file" ELSE "default")
                  ELSE (IF e # "absent" THEN "env" ELSE IF c # "absent" THEN "cli" ELSE IF f # "absent" /\ file # "none" THEN "file" ELSE "default")
ValOf(src, e, c, f) == CASE src = "env" -> e [] src = "cli" -> c [] src = "file" -> f [] OTHER -> "good"
PortSrc == First(envPort, cliPort, filePort)
RootSrc == First(envRoot, cliRoot, IF file = "none" THEN "absent" ELSE fileRoot)
\* the pair: certificate and key are two settings, each taken from its first source; a source giving only the certificate
\* leaves the key to the next source
N(p) == IF p = "none" THEN "absent" ELSE "good"
K(p) == IF p = "both" THEN "good" ELSE "absent"
CertSrc == First(N(envPair), N(cliPair), N(filePair))
KeySrc  == First(K(envPair), K(cliPair), K(filePair))
PairComplete == (CertSrc = "default") = (KeySrc = "default")
\* what is validated: the object as constructed - from the file alone when there is one, else from the command line
BuiltPortBad == IF file # "none" THEN filePort = "bad" ELSE cliPort = "bad"
BuiltRootMissing == /\ file = "none" /\ cliRoot = "absent" /\ envRoot = "absent"
BuiltRootBad == IF file # "none" THEN fileRoot = "bad" ELSE (cliRoot = "absent" /\ envRoot = "bad")
EnvBad == \/ ValOf(PortSrc, envPort, cliPort, filePort) = "bad" \/ ValOf(RootSrc, envRoot, cliRoot, fileRoot) = "bad"     \* the value in force
Refused == \/ BuiltRootMissing \/ BuiltPortBad \/ BuiltRootBad
           \/ ~PairComplete                       \* validate(), on the finished object: whatever the sources
           \/ (~AsBuiltOverridesUnvalidated /\ EnvBad)
           \/ (AsBuiltRequireFlagCrashes /\ flagRequire /\ file # "secured")
Eval == /\ out = Pending
        /\ out' = IF Refused THEN [k |-> "refused"]
                  ELSE [k |-> "started", port |-> PortSrc, root |-> RootSrc, cert |-> CertSrc, key |-> KeySrc,
                        portOK |-> ValOf(PortSrc, envPort, cliPort, filePort) # "bad",
                        rootOK |-> ValOf(RootSrc, envRoot, cliRoot, fileRoot) # "bad",
                        pairOK |-> PairComplete,
                        acl |-> file = "secured" /\ ~DevFileSecurityDropped,
                        \* rate limiting is on by default; the plain file switches it off, the secured one sets its own bucket
                        rate |-> IF file = "secured" /\ ~DevFileSecurityDropped THEN "file" ELSE IF file = "plain" THEN "off" ELSE "default",
                        hash |-> IF flagHash = "--no-hash-ips" THEN FALSE
                                 ELSE IF flagHash = "default" /\ fileHash = "off" /\ ~AsBuiltHashFlagShadowsFile THEN FALSE ELSE TRUE,
                        rules |-> file = "secured" /\ ~DevFileSecurityDropped,
                        requireAll |-> flagRequire /\ ~(AsBuiltFlagYieldsToRules /\ file = "secured")]
        /\ UNCHANGED <<envPort, cliPort, filePort, envRoot, cliRoot, fileRoot, envPair, cliPair, filePair, file, flagRequire, fileHash, flagHash>>
Spec == Init /\ [][Eval]_vars
Started == out.k = "started"
\* ENV > CLI > TOML > default, setting by setting
Precedence == Started => /\ out.port = (IF envPort # "absent" THEN "env" ELSE IF cliPort # "absent" THEN "cli" ELSE IF file # "none" /\ filePort # "absent" THEN "file" ELSE "default")
                         /\ out.root = (IF envRoot # "absent" THEN "env" ELSE IF cliRoot # "absent" THEN "cli" ELSE IF file # "none" THEN "file" ELSE "default")
\* what the operator wrote about access control, rate limit and certificate rules is in force in the server that starts
SecurityInForce == Started => (out.acl = (file = "secured") /\ out.rules = (file = "secured")
                               /\ out.rate = (IF file = "secured" THEN "file" ELSE IF file = "plain" THEN "off" ELSE "default"))
\* addresses are hashed in the logs unless the operator said otherwise - on the command line or (fails as built) in the file
HashAsWritten == Started => (out.hash = ~(flagHash = "--no-hash-ips" \/ (flagHash = "default" /\ fileHash = "off")))
\* the privacy default is never switched off by something the operator did not write
HashOnUnlessAsked == Started => (out.hash \/ flagHash = "--no-hash-ips" \/ fileHash = "off")
\* a server never starts on settings its own validation refuses (fails as built: the environment is not validated)
StartedOnlyValid == Started => (out.portOK /\ out.rootOK /\ out.pairOK)
\* the flag is in force whenever it is given (fails as built: it yields to the file's rules)
RequireFlagInForce == Started => (out.requireAll = flagRequire)
\* a valid command line starts a server (fails as built: the flag alone ends it)
FlagDoesNotRefuse == (out # Pending /\ out.k = "refused") => (BuiltRootMissing \/ BuiltPortBad \/ BuiltRootBad \/ ~PairComplete \/ EnvBad)
=============================================================================
