SPECIFICATION Spec
CONSTANTS
  MaxSegs = 2
  DevTruncateInPlace = FALSE
INVARIANT OnlyInside
INVARIANT Authorised
INVARIANT NonSuccessLeavesTreeUnchanged
INVARIANT SuccessChangesExactlyTarget
CHECK_DEADLOCK FALSE
