SPECIFICATION Spec
CONSTANTS
  IPs = {"a", "b"}
  Params <- RPParams
  Steps = {25, 75}
  CleanEvery = 75
  IdleAge = 150
  MaxTime = 450
  MaxReq = 4
  CleanupFirst = TRUE
  EvictRegardless = FALSE
INVARIANT TypeOK
INVARIANT CleanupInvisible
INVARIANT SameDecision
INVARIANT Window
PROPERTY Isolation
CHECK_DEADLOCK FALSE
