SPECIFICATION Spec
CONSTANTS
  MaxSpawn = 3
  MaxSig = 2
  MaxCrash = 1
  SpawnGap = FALSE
INVARIANT TypeOK
INVARIANT AtMostOneChild
INVARIANT NoOrphanAtExit
INVARIANT KnownChild
INVARIANT TracksLive
INVARIANT KillOnlyAfterGrace
PROPERTY NoSpawnAfterSignal
PROPERTY SignalEnds
PROPERTY Restarts
CHECK_DEADLOCK FALSE
