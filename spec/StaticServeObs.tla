-------------------------- MODULE StaticServeObs --------------------------
(* Observation specification for C02: (tree, request path, what the real StaticFileHandler answered), with the
   served node identified by the driver from sentinel content / listing entries - never by trusting the handler.
   The property formulas Safe and Reachable of StaticServe are evaluated on the observed answer.
     case = [L1 |-> [k, to], idx |-> [k, to], listing, path: Seq(token), trailing, st, node, what]            *)
EXTENDS StaticServe, Json, IOUtils, TLCExt
Cases == JsonDeserialize(IOEnv.TRACE_FILE)
VARIABLES tid, l
C == Cases[tid]
OInit == /\ tid \in 1..Len(Cases) /\ l = 1
         /\ slot = [s \in Slots |-> IF s = "L1" THEN Cases[tid].L1 ELSE Cases[tid].idx]
         /\ listing = Cases[tid].listing /\ path = Cases[tid].path /\ trailing = Cases[tid].trailing
         /\ out = Resp(0, "none", "pending")
ONext == /\ l = 1 /\ l' = 2 /\ UNCHANGED <<tid, slot, listing, path, trailing>>
         /\ out' = [st |-> C.st, node |-> C.node, what |-> C.what, mayfail |-> FALSE]
\* <<Safe on the observation, Reachable on the observation, observation equals the model's answer (modulo three-valued cases)>>
Agrees == LET m == Serve IN
          \/ (out.st = m.st /\ out.node = m.node /\ out.what = m.what)
          \/ m.what = "error"          \* a path through a looping link: realpath's answer is left open (Safe still judged)
          \/ (m.mayfail /\ out.st \notin 20..29)
Flags == IF l = 1 THEN <<TRUE, TRUE, TRUE>> ELSE <<Safe, Reachable, Agrees>>
Report == PrintT(<<"REACHED", tid, l, 2, Flags>>)
=============================================================================
