----------------------------- MODULE UrlObs -----------------------------
(* Observation specification for C08 / C19: for a URL given by its component kinds, what the real code did with a
   concrete spelling of it - over the wire path (server protocol with spy handler / middleware) and through
   parse_url / normalize_url / validate_url and a client -> server round trip - projected back onto kinds by the driver.
     case = [u: kinds, uploads, called, status, seen: [host, port, path, query],
             lib: [accepts, idem, normAccepts, norm: [host, port, path, query], wire: [host, port, path, query]]]      *)
EXTENDS Url, Sequences, Json, IOUtils, TLCExt
Cases == JsonDeserialize(IOEnv.TRACE_FILE)
VARIABLES tid, l
C == Cases[tid]
UOf(c) == [scheme |-> c.u.scheme, user |-> c.u.user, host |-> c.u.host, port |-> c.u.port, path |-> c.u.path,
           query |-> c.u.query, frag |-> c.u.frag, len |-> c.u.len]
OInit == tid \in 1..Len(Cases) /\ l = 1 /\ u = UOf(Cases[tid]) /\ uploads = Cases[tid].uploads /\ out = "pending"
ONext == l = 1 /\ l' = 2 /\ Eval /\ UNCHANGED tid
Seen(r) == [host |-> r.host, port |-> r.port, path |-> r.path, query |-> r.query]
\* C08
AcceptOK == out = "accept" => (C.called /\ C.status = 20 /\ Seen(C.seen) = Expect(u))
RejectOK == out = "reject" => (~C.called /\ C.status = 59)
Refuse50 == out = "refuse50" => (~C.called /\ C.status = 50)
CalledOnlyIfAcceptable == C.called => out # "reject"
\* C19 (for URLs the library accepts)
LibIdem == C.lib.accepts => C.lib.idem
LibMeaning == (C.lib.accepts /\ C.lib.normAccepts) => Seen(C.lib.norm) = Expect(u)
LibNormAccepted == (C.lib.accepts /\ ~AtLimitEmptyPath(u)) => C.lib.normAccepts
LibWire == (C.lib.accepts /\ C.lib.normAccepts) => Seen(C.lib.wire) = Expect(u)
KnownLimit == ~(C.lib.accepts /\ AtLimitEmptyPath(u) /\ ~C.lib.normAccepts)
Flags == IF l = 1 THEN <<TRUE, TRUE, TRUE, TRUE, TRUE, TRUE, TRUE, TRUE, TRUE>>
         ELSE <<AcceptOK, RejectOK, Refuse50, CalledOnlyIfAcceptable, LibIdem, LibMeaning, LibNormAccepted, LibWire, KnownLimit>>
Report == PrintT(<<"REACHED", tid, l, 2, Flags>>)
=============================================================================
