SPECIFICATION Spec
CONSTANTS
  MaxSegs = 3
  SegAlphabet = {"", ".", "..", "app", "public", "admin", "secret.gmi", "open.gmi", "index.gmi", "x", "%2e%2e", "app%2fsecret.gmi", "%61pp", "app-x", "apple.gmi", "keys.gmi", "app%252fsecret.gmi", "%252e%252e", "app/%FF/..", "app%5csecret.gmi", "caproot"}
  RuleLists <- MCRules
  Certs = {"c1", "c2"}
  DevMatchRawPath = FALSE
  DevEmptyListMeansNoList = FALSE
  DevClimbAndReturn = FALSE
  DevIndexNotJudged = FALSE
INVARIANT AppliedToServed
INVARIANT RefusalIs6x
CHECK_DEADLOCK FALSE
