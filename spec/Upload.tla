---------------------------- MODULE Upload ----------------------------
(* FileUploadHandler.handle_upload / _handle_delete over a small upload tree with a link slot,
   with storage faults.  Pure function: TLC enumerates (tree, request, fault) and evaluates once. *)
EXTENDS Naturals, Sequences, FiniteSets, TLC
CONSTANTS MaxSegs,
          DevTruncateInPlace,    \* deviation (tree before its fix): Path.write_bytes truncates, then writes
          DevLoopLexical,        \* deviation (tree before its fix): what Path.resolve() returns after giving up at a symbolic-
                                 \* link loop is trusted as if it were fully resolved (see StaticServe.tla, LexWalk)
          LoopInstance           \* TRUE: the instance with a second link M that points at itself, and paths through it
\*   TOP/ up/ { e, d/ { df }, L, M }   up2/ { s2 }   out/ { sec }          (M: absent, or a link to itself)
Dirs  == {"TOP", "up", "d", "up2", "out"}
Files == {"e", "df", "s2", "sec"}
Slots == {"L", "M"}
Nodes == Dirs \cup Files \cup Slots
Parent == [n \in Nodes |-> CASE n \in {"up", "up2", "out", "TOP"} -> "TOP" [] n \in {"e", "d", "L", "M"} -> "up"
                             [] n = "df" -> "d" [] n = "s2" -> "up2" [] n = "sec" -> "out"]
Targets == (Dirs \ {"TOP"}) \cup Files \cup {"dangling", "L"} \cup (IF LoopInstance THEN {"M"} ELSE {})
SlotKinds == {[k |-> "absent", to |-> "-"]} \cup [k : {"link"}, to : Targets]
MKinds == IF LoopInstance THEN {[k |-> "link", to |-> "M"]} ELSE {[k |-> "absent", to |-> "-"]}
SegAlphabet == IF LoopInstance THEN {"..", "M", "L", "n", "d"} ELSE {"", ".", "..", "e", "d", "df", "L", "n", "up2"}
Paths == UNION { [1..n -> SegAlphabet] : n \in 0..MaxSegs }
Requests == IF LoopInstance
            THEN [path : Paths, size : {"zero", "ok"}, token : {"notneeded"}, mime : {"nolist"}, deleteOn : {TRUE}, fault : {"none"}]
            ELSE [path : Paths, size : {"zero", "ok", "over"}, token : {"notneeded", "right", "wrong", "missing"},
             mime : {"nolist", "allowed", "refused", "emptylist"}, deleteOn : BOOLEAN, fault : {"none", "partial", "perm", "dropbox", "logfail"}]   \* logfail: every write to the server's log fails (log disk full, a stream that cannot encode the request line) - the log is no part of the outcome; dropbox: the directories can be written and searched but not read (mode 0300): storing works as ever
VARIABLES slot, req, out
vars == <<slot, req, out>>
Exists(n) == n \in Dirs \cup Files \/ (n \in Slots /\ slot[n].k # "absent")
IsLink(n) == n \in Slots /\ slot[n].k = "link"
RECURSIVE Follow(_, _)
Follow(n, hops) == IF n = "dangling" THEN "dangling" ELSE IF ~IsLink(n) THEN n ELSE IF hops > 1 THEN "loop" ELSE Follow(slot[n].to, hops + 1)
Child(d, name) == LET c == {n \in Nodes : Parent[n] = d /\ n # "TOP" /\ n = name /\ Exists(n)} IN IF c = {} THEN "none" ELSE CHOOSE n \in c : TRUE
RECURSIVE InsideUp(_)
InsideUp(n) == IF n = "up" THEN TRUE ELSE IF n \notin Nodes \/ n = "TOP" THEN FALSE ELSE InsideUp(Parent[n])
\* following links from n runs in a circle: the first link met twice (where realpath gives up)
RECURSIVE LoopAnchor(_, _)
LoopAnchor(n, seen) == IF n \in seen THEN n ELSE LoopAnchor(slot[n].to, seen \cup {n})
RECURSIVE Resolve(_, _)
Resolve(loc, segs) ==
  IF loc.at = "loop" \/ segs = <<>> THEN loc
  ELSE LET s == Head(segs)  rest == Tail(segs) IN
       IF s = "" \/ s = "." THEN Resolve(loc, rest)
       ELSE IF s = ".." THEN IF loc.ghost > 0 THEN Resolve([loc EXCEPT !.ghost = @ - 1], rest)
                             ELSE Resolve([at |-> Parent[loc.at], ghost |-> 0], rest)
       ELSE IF loc.ghost > 0 \/ loc.at \notin Dirs THEN Resolve([loc EXCEPT !.ghost = @ + 1], rest)
       ELSE LET c == Child(loc.at, s) IN
            IF c = "none" THEN Resolve([loc EXCEPT !.ghost = 1], rest)
            ELSE LET t == Follow(c, 0) IN
                 IF t = "loop" THEN [at |-> "loop", ghost |-> 0, d |-> Parent[LoopAnchor(c, {})], c |-> LoopAnchor(c, {}), rest |-> rest]
                 ELSE IF t = "dangling" THEN Resolve([at |-> "TOP", ghost |-> 1], rest)
                 ELSE Resolve([at |-> t, ghost |-> 0], rest)
\* ---- the handler: result = [ok: success?, change: what happened to the tree] -----------------
NoChange == [kind |-> "none", at |-> "-", ghost |-> 0]
R(ok, ch) == [ok |-> ok, change |-> ch]
TokenOK == req.token \in {"notneeded", "right"}
\* what the handler does once the path has been resolved to loc; contained = the containment test really is about loc
HandleAt(loc, contained) ==
       IF req.size = "zero" THEN                                   \* delete request
            IF ~req.deleteOn THEN R(FALSE, NoChange)
            ELSE IF contained /\ ~InsideUp(loc.at) THEN R(FALSE, NoChange)
            ELSE IF loc.ghost > 0 THEN R(FALSE, NoChange)           \* 51
            ELSE IF loc.at \in Dirs \/ req.fault = "perm" THEN R(FALSE, NoChange)   \* unlink fails
            ELSE R(TRUE, [kind |-> "deleted", at |-> loc.at, ghost |-> 0])
       ELSE IF contained /\ ~InsideUp(loc.at) THEN R(FALSE, NoChange)
       ELSE IF loc.ghost = 0 /\ loc.at \in Dirs THEN R(FALSE, NoChange)        \* target is a directory
       ELSE IF loc.ghost > 0 /\ loc.at \notin Dirs THEN R(FALSE, NoChange)     \* a file is in the way
       ELSE IF req.fault = "perm" THEN R(FALSE, NoChange)
       ELSE IF req.fault = "partial" THEN
            IF DevTruncateInPlace THEN R(FALSE, [kind |-> "mangled", at |-> loc.at, ghost |-> loc.ghost])
            ELSE R(FALSE, NoChange)
       ELSE R(TRUE, [kind |-> IF loc.ghost = 0 THEN "replaced" ELSE "created", at |-> loc.at, ghost |-> loc.ghost])
\* Path.resolve() at a symbolic-link loop: see StaticServe.tla (the link met twice + the rest of the request, normalised
\* lexically, links not looked at)
RECURSIVE LexWalk(_, _, _)
LexWalk(d, stack, segs) ==
  IF segs = <<>> THEN [d |-> d, names |-> stack]
  ELSE LET s == Head(segs)  rest == Tail(segs) IN
       IF s = "" \/ s = "." THEN LexWalk(d, stack, rest)
       ELSE IF s = ".." THEN (IF stack # <<>> THEN LexWalk(d, SubSeq(stack, 1, Len(stack) - 1), rest)
                              ELSE LexWalk(Parent[d], <<>>, rest))
       ELSE LexWalk(d, Append(stack, s), rest)
LexInside(lw) == InsideUp(lw.d) \/ (lw.d = "TOP" /\ lw.names # <<>> /\ lw.names[1] = "up")
RECURSIVE HasLink(_, _)
HasLink(d, names) ==
  IF names = <<>> THEN FALSE
  ELSE LET c == Child(d, Head(names)) IN
       IF c = "none" THEN FALSE ELSE IF IsLink(c) THEN TRUE ELSE IF c \in Dirs THEN HasLink(c, Tail(names)) ELSE FALSE
Handle ==
  IF ~TokenOK THEN R(FALSE, NoChange)
  ELSE IF req.size = "over" THEN R(FALSE, NoChange)
  ELSE IF req.mime \in {"refused", "emptylist"} THEN R(FALSE, NoChange)      \* emptylist: a list that allows nothing
  ELSE LET loc == Resolve([at |-> "up", ghost |-> 0], req.path) IN
       IF loc.at # "loop" THEN HandleAt(loc, TRUE)
       ELSE LET lw == LexWalk(loc.d, <<loc.c>>, loc.rest)
                r  == Resolve([at |-> lw.d, ghost |-> 0], lw.names) IN
            IF r.at = "loop" THEN R(FALSE, NoChange)                        \* resolve()'s own stat() meets the loop: it raises
            ELSE IF DevLoopLexical THEN (IF LexInside(lw) THEN HandleAt(r, FALSE) ELSE R(FALSE, NoChange))
            ELSE IF HasLink(lw.d, lw.names) THEN R(FALSE, NoChange)         \* resolving once more changes the path: refused
            ELSE HandleAt(r, TRUE)
Init == slot \in {f \in [Slots -> SlotKinds \cup MKinds] : f["L"] \in SlotKinds /\ f["M"] \in MKinds} /\ req \in Requests /\ out = R(FALSE, [kind |-> "pending", at |-> "-", ghost |-> 0])
Eval == out.change.kind = "pending" /\ out' = Handle /\ UNCHANGED <<slot, req>>
Spec == Init /\ [][Eval]_vars
\* ---- properties (C14) ----
Done == out.change.kind # "pending"
Changed == Done /\ out.change.kind # "none"
OnlyInside == Changed => InsideUp(out.change.at)
Authorised == Changed => (TokenOK /\ req.size # "over" /\ req.mime \notin {"refused", "emptylist"} /\ (req.size = "zero" => req.deleteOn))
NonSuccessLeavesTreeUnchanged == (Done /\ ~out.ok) => out.change.kind = "none"
SuccessChangesExactlyTarget == (Done /\ out.ok) => out.change.kind \in {"created", "replaced", "deleted"}
=============================================================================
