------------------------- MODULE ServerConnTrace -------------------------
(* Trace validation (code -> spec) for ServerConn: is each recorded execution of the real
   GeminiServerProtocol a behaviour of ServerConn?  One JSON file holds many traces:
     [ [cfg |-> ..., steps |-> << [a |-> "Data", p |-> 35, o |-> observation], ... >>], ... ]
   Each trace action is  IsEvent(name) /\ SpecAction(args) /\ (projection of the next state = logged observation).
   A CONSTRAINT prints <<"REACHED", tid, l, Len, flags>> for every state reached, so one JVM start
   gives, per trace, the longest matched prefix and the value of every invariant at every step.     *)
EXTENDS ServerConn, Json, IOUtils, TLCExt
Traces == JsonDeserialize(IOEnv.TRACE_FILE)
VARIABLES tid, l
tvars == <<vars, tid, l>>

T == Traces[tid]
Steps == T.steps
Ev == Steps[l]
ToSet(seq) == {seq[i] : i \in 1..Len(seq)}
\* the stream record of the trace (JSON has the cut points as a sequence)
TraceCfg(t) == [s |-> [lineLen |-> t.cfg.s.lineLen, crlf |-> t.cfg.s.crlf, cls |-> t.cfg.s.cls,
                       tsize |-> t.cfg.s.tsize, after |-> t.cfg.s.after, cuts |-> ToSet(t.cfg.s.cuts)],
                mw |-> t.cfg.mw, h |-> t.cfg.h, hasUpload |-> t.cfg.hasUpload]

\* projection of a specification state onto what the driver can observe
Proj == [wire |-> wire, tp |-> tp, armed |-> (timer = "armed"),
         h |-> calls.h, u |-> calls.u, mw |-> calls.mw, busy |-> (pending # "none"), torn |-> torn]
\* (o.consultedOK - the identity the chain was consulted with - is judged by ServerConnObs)
ObsOf(o) == [wire |-> o.wire, tp |-> o.tp, armed |-> o.armed, h |-> o.h, u |-> o.u, mw |-> o.mw,
             busy |-> o.busy, torn |-> o.torn]

TInit == /\ tid \in 1..Len(Traces) /\ l = 1
         /\ cfg = TraceCfg(Traces[tid])
         /\ delivered = 0 /\ lineSeen = FALSE /\ awaiting = FALSE /\ pending = "none" /\ mwIdx = 0
         /\ timer = "armed" /\ tp = "open" /\ wire = <<>> /\ torn = FALSE
         /\ calls = [h |-> 0, u |-> 0, mw |-> 0] /\ peerGone = FALSE /\ complete = FALSE

IsEvent(e) == l <= Len(Steps) /\ Ev.a = e /\ l' = l + 1 /\ UNCHANGED tid
Matches == Proj' = ObsOf(Ev.o)
TNext == \/ IsEvent("Data") /\ Data(Ev.p) /\ Matches
         \/ IsEvent("MwStep") /\ MwStep /\ Matches
         \/ IsEvent("HandlerComplete") /\ HandlerComplete /\ Matches
         \/ IsEvent("TimerFire") /\ TimerFire /\ Matches
         \/ IsEvent("PeerDisconnect") /\ PeerDisconnect /\ Matches
         \/ IsEvent("ConnectionLost") /\ ConnectionLost /\ Matches
TSpec == TInit /\ [][TNext]_tvars

Flags == << OneResponse, WellFormed, NeverTorn, ThenClosed, GateC04, NoneBeyondRefusal, FirstRejectionWins,
            AtMostOnce, TimerWhileWaiting, AnsweredWhenQuiet, SegIndep, OnlyValidReachHandler, Progress >>
Report == PrintT(<<"REACHED", tid, l, Len(Steps) + 1, Flags>>)
=============================================================================
