--------------------------- MODULE ClientConnTrace ---------------------------
(* Trace validation (code -> spec) for ClientConn: client calls against randomly generated server streams (response grammar
   and its corruptions, random cut points, every way of ending) executed by the driver on the real GeminiClient are recorded
   - the callback performed, the request bytes seen by the peer, what the caller has, whether the client closed, whether
   connection_lost was delivered - and must be behaviours of ClientConn; every invariant is evaluated at every step.
     trace = [sc: script record (cuts as a sequence), tofu, ep, steps: << [act, p, sentReq, caller, cliClosed, lost], ... >>]
   The real coroutine resumes in the same loop iteration as the callback that resolved its future, so `Deliver` is a silent
   step here and observations are compared "after the eager Deliver".                                                      *)
EXTENDS ClientConn, Json, IOUtils, TLCExt
Traces == JsonDeserialize(IOEnv.TRACE_FILE)
VARIABLES tid, l
T == Traces[tid]
Steps_ == T.steps
Ev == Steps_[l]
ToSet(seq) == {seq[i] : i \in 1..Len(seq)}
ScOf(r) == [hdrLen |-> r.hdrLen, crlf |-> r.crlf, hdrCls |-> r.hdrCls, status |-> r.status, text |-> r.text,
            charset |-> r.charset, bodyLen |-> r.bodyLen, bodyOK |-> r.bodyOK, sendLen |-> r.sendLen, ends |-> r.ends,
            cuts |-> ToSet(r.cuts)]
TInit == /\ tid \in 1..Len(Traces) /\ l = 1
         /\ InitWith([sc |-> ScOf(Traces[tid].sc), tofu |-> Traces[tid].tofu, ep |-> Traces[tid].ep])
IsEvent(e) == l <= Len(Steps_) /\ Ev.act = e /\ l' = l + 1 /\ UNCHANGED tid
\* observation of the post-state, with the eager Deliver applied
EagerP == caller' = "waiting" /\ verified' /\ fut'.k # "pending"
\* how a call ends, as far as the property distinguishes it: a response, a pin refusal, the timeout - or "an exception that
\* names the problem", whichever exception that is (the driver logs the same classes)
Cls(c) == IF c \in {"waiting", "response", "error:Timeout", "error:CertificateChanged", "error:CertificateUnreadable"} THEN c ELSE "error"
ObsMatch == /\ sentReq' = Ev.sentReq /\ lost' = Ev.lost
            /\ Ev.caller = Cls(IF EagerP THEN (IF fut'.k = "result" THEN "response" ELSE "error:" \o fut'.why) ELSE caller')
            /\ Ev.cliClosed = (IF EagerP THEN TRUE ELSE cliClosed')
TNext == \/ IsEvent("Verify") /\ Verify /\ ObsMatch
         \/ IsEvent("Rx") /\ Rx(Ev.p) /\ ObsMatch
         \/ IsEvent("PeerEnds") /\ PeerEnds /\ ObsMatch
         \/ IsEvent("LostAfterClose") /\ LostAfterClose /\ ObsMatch
         \/ IsEvent("Deadline") /\ Deadline /\ ObsMatch
         \/ Deliver /\ UNCHANGED <<tid, l>>
Flags == << NothingBeforeVerify, ChangedGetsNothing, PromptOnClose, Faithful, Capped, SegIndep >>
Report == PrintT(<<"REACHED", tid, l, Len(Steps_) + 1, Flags>>)
=============================================================================
