INIT TInit
NEXT TNext
CONSTANTS
  K = 8
  MaxEntries = 0
  DevNoneWhenListsEmpty = FALSE
CONSTRAINT Report
CHECK_DEADLOCK FALSE
