INIT TInit
NEXT TNext
CONSTANTS
  K = 8
  MaxEntries = 0
  DevNoneWhenListsEmpty = FALSE
  DevEmptyAllowIsAbsent = FALSE
CONSTRAINT Report
CHECK_DEADLOCK FALSE
