SPECIFICATION Spec
CONSTANTS
  K = 2
  MaxEntries = 1
  DevNoneWhenListsEmpty = FALSE
INVARIANT AsConfigured
CHECK_DEADLOCK FALSE
