SPECIFICATION Spec
CONSTANTS
  K = 2
  MaxEntries = 1
  DevNoneWhenListsEmpty = FALSE
  DevEmptyAllowIsAbsent = FALSE
INVARIANT AsConfigured
CHECK_DEADLOCK FALSE
