SPECIFICATION Spec
CONSTANTS
  Client <- MCClient
  Replies <- MCReplies
  RecordMax = 16384
  DevSingleSendCall = FALSE
  DevNoHsTimer = FALSE
  DevReadOnceAfterHandshake = FALSE
  DevPlainTimeoutReply = FALSE
  DevCloseBeforeDeliver = FALSE
INVARIANT PrefixAlways
INVARIANT CompleteAtClose
INVARIANT ClosedAfterCloseNotify
INVARIANT InnerOnlyAfterHandshake
INVARIANT NoPlainBeforeTls
INVARIANT OnlyTlsOnWire
INVARIANT PlainInOrder
INVARIANT PlainComplete
INVARIANT RequestAnswered
INVARIANT HsTimerWhileHandshaking
PROPERTY SilentPeerDropped
CHECK_DEADLOCK FALSE
