---------------------------- MODULE CertAuth ----------------------------
(* Path-based certificate rules (middleware.CertificateAuth + ServerConfig.get_certificate_auth_config)
   composed with what the static handler serves for the same request (C05).  Pure function over a
   fixed capsule; TLC enumerates (rule list, request path spelling, certificate) and evaluates once.

   capsule:  / {index.gmi, pub.gmi, apple.gmi, app/ {index.gmi, secret.gmi, public/ {index.gmi, open.gmi}},
                admin/ {index.gmi, panel.gmi}, app-x/ {index.gmi, keys.gmi}}                                                         *)
EXTENDS Naturals, Sequences, FiniteSets, TLC
CONSTANTS MaxSegs, SegAlphabet, RuleLists, Certs,
          DevMatchRawPath,          \* deviation: rule prefix compared with the raw URL path (str.startswith)
          DevEmptyListMeansNoList,  \* deviation: configuration layer turns allowed_fingerprints = [] into "no list"
          DevIndexNotJudged,        \* deviation (tree before its fix): a request for a directory is judged by the directory's path
                                    \* only, while what is delivered is the directory's index file - a rule for that file is not applied
          DevClimbAndReturn         \* deviation (tree before its fix): "/../caproot/app/x" - above the document root and back in
                                    \* through its own name - is served, while the rules see "/caproot/app/x"
\* "app-x" and "apple.gmi" share a name stem with "app": a rule for /app/ covers neither
DirPaths == { <<>>, <<"app">>, <<"app", "public">>, <<"admin">>, <<"app-x">> }
FileNames == [ d \in DirPaths |-> CASE d = <<>> -> {"index.gmi", "pub.gmi", "apple.gmi"} [] d = <<"app">> -> {"index.gmi", "secret.gmi"}
                                   [] d = <<"app", "public">> -> {"index.gmi", "open.gmi"} [] d = <<"admin">> -> {"index.gmi", "panel.gmi"}
                                   [] d = <<"app-x">> -> {"index.gmi", "keys.gmi"} ]
Paths == UNION { [1..n -> SegAlphabet] : n \in 0..MaxSegs }
NoList == [has |-> FALSE, set |-> {}]
List(S) == [has |-> TRUE, set |-> S]
\* a rule: [prefix: Seq of segments (written with a trailing slash), require: BOOLEAN, fps: NoList or List(S)]
VARIABLES rules, path, trailing, cert, out
vars == <<rules, path, trailing, cert, out>>
\* percent-decoding of a token into decoded segments
Dec(t) == CASE t = "%2e%2e" -> <<"..">> [] t = "%2E" -> <<".">> [] t = "app%2fsecret.gmi" -> <<"app", "secret.gmi">>
            [] t = "%61pp" -> <<"app">>
            \* double-encoded spellings: ONE decoding step gives a single, literal name (which does not exist in the capsule)
            [] t = "app%252fsecret.gmi" -> <<"app%2fsecret.gmi">> [] t = "%252e%252e" -> <<"%2e%2e">>
            \* a segment that is not valid UTF-8 once decoded, cancelled by the ".." after it; a backslash is a character of a name
            [] t = "app/%FF/.." -> <<"app", "-undecodable-", "..">> [] t = "app%5csecret.gmi" -> <<"app-backslash-secret.gmi">>
            [] OTHER -> <<t>>
RECURSIVE Flat(_)
Flat(p) == IF p = <<>> THEN <<>> ELSE Dec(Head(p)) \o Flat(Tail(p))
\* ---- what the handler serves: resolution of the decoded path below the document root ------------------
RECURSIVE Norm(_, _)
Norm(segs, acc) == IF segs = <<>> THEN acc
   ELSE LET h == Head(segs) IN
        IF h = "" \/ h = "." THEN Norm(Tail(segs), acc)
        ELSE IF h = ".." THEN (IF acc = <<>> THEN
                                   \* the path climbs above the document root: the handler refuses it (51) - even if it comes
                                   \* back in through the root's own name ("caproot"), which is what DevClimbAndReturn does not
                                   (IF DevClimbAndReturn THEN Norm(Tail(segs), <<"-up1-">>) ELSE <<"-above-root-">>)
                               ELSE IF acc = <<"-up1-">> THEN <<"-above-root-">>
                               ELSE Norm(Tail(segs), SubSeq(acc, 1, Len(acc) - 1)))
        ELSE IF acc = <<"-up1-">> THEN (IF h = "caproot" THEN Norm(Tail(segs), <<>>) ELSE <<"-above-root-">>)
        ELSE Norm(Tail(segs), Append(acc, h))
Served ==    \* location (sequence of segments) of the file whose content is delivered, or <<"-none-">>
  LET n == Norm(Flat(path), <<>>) IN
  IF n \in DirPaths THEN Append(n, "index.gmi")
  ELSE IF Len(n) > 0 /\ SubSeq(n, 1, Len(n) - 1) \in DirPaths /\ n[Len(n)] \in FileNames[SubSeq(n, 1, Len(n) - 1)] THEN n
  ELSE <<"-none-">>
\* the middleware's canonical path: ".." at the root is ignored (it cannot leave "/")
RECURSIVE NormAuth(_, _)
NormAuth(segs, acc) == IF segs = <<>> THEN acc
   ELSE LET h == Head(segs) IN
        IF h = "" \/ h = "." THEN NormAuth(Tail(segs), acc)
        ELSE IF h = ".." THEN NormAuth(Tail(segs), IF acc = <<>> THEN <<>> ELSE SubSeq(acc, 1, Len(acc) - 1))
        ELSE NormAuth(Tail(segs), Append(acc, h))
\* ---- rule evaluation ----------------------------------------------------------------------------
IsPrefixSeq(p, s) == Len(p) <= Len(s) /\ SubSeq(s, 1, Len(p)) = p
RECURSIVE First(_, _)
First(rs, loc) == IF rs = <<>> THEN [found |-> FALSE] ELSE IF IsPrefixSeq(Head(rs).prefix, loc) THEN [found |-> TRUE, r |-> Head(rs)] ELSE First(Tail(rs), loc)
Eff(r) == IF DevEmptyListMeansNoList /\ r.fps.has /\ r.fps.set = {} THEN NoList ELSE r.fps
JudgeWith(m, fps, c) == IF ~m.found THEN "deliver"
            ELSE IF m.r.require /\ c = "none" THEN "60"
            ELSE IF fps.has THEN (IF c = "none" THEN "60" ELSE IF c \notin fps.set THEN "61" ELSE "deliver")
            ELSE "deliver"
Judge(m)    == JudgeWith(m, IF m.found THEN Eff(m.r) ELSE NoList, cert)      \* what the running server applies
JudgeRef(m, c) == JudgeWith(m, IF m.found THEN m.r.fps ELSE NoList, c)      \* what was written in the configuration
\* what the policy says about a resource at location loc for certificate c (the property's reference)
PolicyAt(loc, c) == JudgeRef(First(rules, loc), c)
Policy == PolicyAt(Served, cert)
\* what the middleware decides: on the canonical request path (design) or on the raw one (deviation)
RawCovers(p) ==     \* str.startswith("/"+"/".join(prefix)+"/") on the raw path "/"+"/".join(path) [+ "/"]
  /\ Len(p) <= Len(path) /\ SubSeq(path, 1, Len(p)) = p
  /\ (p = <<>> \/ Len(path) > Len(p) \/ trailing)           \* the raw path continues with "/" after the prefix
RECURSIVE FirstRaw(_)
FirstRaw(rs) == IF rs = <<>> THEN [found |-> FALSE] ELSE IF RawCovers(Head(rs).prefix) THEN [found |-> TRUE, r |-> Head(rs)] ELSE FirstRaw(Tail(rs))
\* the canonical path covers a directory by its own prefix ("/app" is covered by "/app/")
\* a directory request is answered with the directory's index file: the rules of that file's own location apply as well
GateCanon == LET p == NormAuth(Flat(path), <<>>)
                 a == Judge(First(rules, p))
                 b == Judge(First(rules, Append(p, "index.gmi"))) IN
             IF a # "deliver" \/ DevIndexNotJudged THEN a ELSE b
Gate == IF DevMatchRawPath THEN Judge(FirstRaw(rules)) ELSE GateCanon
Result == IF Gate # "deliver" THEN Gate ELSE IF Served = <<"-none-">> THEN "51" ELSE "deliver"
Init == rules \in RuleLists /\ path \in Paths /\ trailing \in BOOLEAN /\ cert \in Certs \cup {"none"} /\ out = "pending"
Eval == out = "pending" /\ out' = Result /\ UNCHANGED <<rules, path, trailing, cert>>
Spec == Init /\ [][Eval]_vars
\* ---- properties (C05) ----
AppliedToServed == out = "deliver" => Policy = "deliver"
RefusalIs6x == (out # "pending" /\ Served # <<"-none-">> /\ Policy # "deliver") => out = Policy
=============================================================================
