------------------------------ MODULE Listing ------------------------------
(* Directory listings (nauyaca/content/gemtext.py generate_directory_listing, reached through StaticFileHandler with
   listings enabled): a listing is a gemtext document with one link line per entry of the directory; a reader follows a
   link by resolving its URL against the URL of the listing.  Extension beyond the listed properties (C02 decides WHAT may
   be served; this module decides whether a listing is a usable index of it): every entry has exactly one line, the line's
   link leads to that entry, and no name adds lines or links of its own.

   Modelled as built: the entry's name is written into the link line verbatim (AsBuiltVerbatimNames).  A gemtext link
   line is `=>` blanks URL [blanks label]; the URL ends at the first blank, `%xx` in it is an escape, `?` starts the
   query, `#` the fragment, a line feed ends the line.  So only names free of those characters lead anywhere; the
   others are named here with what becomes of them.  With the constant FALSE the module describes a listing whose links
   are written as RFC 3986 prescribes (each name percent-encoded): LinksLead and OneLinePerEntry hold there and fail as
   built - reported as observations.                                                                                     *)
EXTENDS Naturals, TLC
CONSTANTS AsBuiltVerbatimNames,
          DevParentLinkWrong        \* deviation: the `..` link of a sub-directory's listing does not lead to its parent
Names == {"plain", "nonascii", "dotted", "semicolon", "space", "percent", "pctliteral", "question", "hash", "linefeed", "arrowline", "leadingblank"}
  \* plain "notes.gmi"; nonascii "café.gmi"; dotted "..notes"; semicolon "a;b.gmi"; space "my notes.gmi";
  \* percent "100%.gmi" (a % not followed by two hex digits); pctliteral "a%41b.gmi" (reads as an escape);
  \* question "what?.gmi"; hash "a#b.gmi"; linefeed "a\nb.gmi"; arrowline "x\n=> mailto:someone@elsewhere.example y";
  \* leadingblank " lead.gmi"
Where == {"root", "subslash", "subnoslash"}     \* the listing of "/" , of "/sub/" , of "/sub" (requested without the slash)
VARIABLES name, isDir, where, out
vars == <<name, isDir, where, out>>
Pending == [k |-> "pending"]
Init == name \in Names /\ isDir \in BOOLEAN /\ where \in Where /\ out = Pending
\* what becomes of the entry's line when the name is written verbatim
Verbatim(n) ==
  CASE n \in {"plain", "nonascii", "dotted", "semicolon", "percent"} -> [lines |-> 1, link |-> "entry"]     \* (a % that starts no escape is left alone by the server's decoding)
    [] n = "space"        -> [lines |-> 1, link |-> "nothing"]      \* URL ends at the blank: "/my"
    [] n = "leadingblank" -> [lines |-> 1, link |-> "directory"]    \* URL is the listing's own directory, the name becomes the label
    [] n = "pctliteral"   -> [lines |-> 1, link |-> "nothing"]      \* "%41" is decoded: "aAb.gmi", another name
    [] n = "question"     -> [lines |-> 1, link |-> "nothing"]      \* "/what" with query ".gmi"
    [] n = "hash"         -> [lines |-> 1, link |-> "nothing"]      \* fragment cut by the reader: "/a"
    [] n = "linefeed"     -> [lines |-> 3, link |-> "nothing"]      \* the name is written twice (URL and label): each line feed in it ends a line
    [] n = "arrowline"    -> [lines |-> 3, link |-> "foreign"]      \* the rest is a link line of its own, leading wherever the name says
Eval == /\ out = Pending
        /\ out' = (IF AsBuiltVerbatimNames THEN Verbatim(name) ELSE [lines |-> 1, link |-> "entry"])
                  @@ [k |-> "listed", parent |-> IF where = "root" THEN "none" ELSE IF DevParentLinkWrong THEN "elsewhere" ELSE "parent"]
        /\ UNCHANGED <<name, isDir, where>>
Spec == Init /\ [][Eval]_vars
Listed == out.k = "listed"
\* holds as built: a name made of ordinary characters is indexed correctly, at every depth, with or without the final slash
OrdinaryNamesLead == (Listed /\ name \in {"plain", "nonascii", "dotted", "semicolon", "percent"}) => (out.lines = 1 /\ out.link = "entry")
ParentLinkLeads == Listed => out.parent = (IF where = "root" THEN "none" ELSE "parent")
\* hold for a listing written as RFC 3986 prescribes; fail as built
LinksLead == Listed => out.link = "entry"
OneLinePerEntry == Listed => out.lines = 1
NoForeignLinks == Listed => out.link # "foreign"
=============================================================================
