INIT OInit
NEXT ONext
CONSTANTS
  Hosts = {"h1", "h2", "h3"}
  Fps = {"f1", "f2"}
  Ops = {}
  DevReplaceClearsInOwnTxn = FALSE
  DevExistenceViaSecondConn = FALSE
CONSTRAINT Report
CHECK_DEADLOCK FALSE
