SPECIFICATION Spec
CONSTANTS
  DevOtherKey = FALSE
  DevInText = FALSE
INVARIANT NoAddressWhenHashing
INVARIANT AddressWhenAsked
CHECK_DEADLOCK FALSE
