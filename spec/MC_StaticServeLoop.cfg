SPECIFICATION Spec
CONSTANTS
  MaxSegs = 4
  SegAlphabet = {"..", "a", "L1", "index.gmi"}
  DevIndexNotRechecked = FALSE
  DevNoPctDecode = FALSE
  DevLoopLexical = FALSE
CONSTRAINT HasLoop
INVARIANT Safe
INVARIANT Reachable
CHECK_DEADLOCK FALSE
