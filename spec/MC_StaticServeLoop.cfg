SPECIFICATION Spec
CONSTANTS
  MaxSegs = 4
  SegAlphabet = {"..", "a", "L1", "index.gmi", "root"}
  DevIndexNotRechecked = FALSE
  DevNoPctDecode = FALSE
  DevLoopLexical = FALSE
  DevClimbAndReturn = FALSE
CONSTRAINT HasLoop
INVARIANT Safe
INVARIANT Reachable
CHECK_DEADLOCK FALSE
