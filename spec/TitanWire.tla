------------------------------ MODULE TitanWire ------------------------------
(* GeminiClient.upload (client/session.py) -> request line -> TitanRequest.from_line (protocol/request.py) behind the real
   server protocol: extension beyond the listed properties - the Titan counterpart of the last sentence of C19 ("the
   request line a client puts on the wire is parsed by the server to the same components the caller asked for").

   The client writes  titan://host/path;size=N;mime=TYPE[;token=TOKEN]  WITHOUT escaping anything; the server cuts the
   line at the first ';' and splits the rest at every ';'.  So the round trip is faithful exactly on the kinds below called
   Safe; outside it the specification says what happens instead (observations, named, so that a change is noticed):

     path  "semicolon"   a literal ';' in the path: the target is cut there and the rest is read as a parameter
     path  "query"       the query is not part of what the upload handler acts on (the path alone is)
     token "semicolon"   the token is cut at its first ';'
     token "sizeInside"  a token containing ";size=0" overrides the declared size: the upload becomes a zero-byte request
     mime  "param"       a media type with a parameter ("text/plain; charset=utf-8") loses the parameter
     scheme upper-case   refused by the client (the Gemini entry points accept it)                                       *)
EXTENDS Naturals, TLC
CONSTANT DevUnescaped         \* deviation (tree before its fix): upload() puts ';' on the wire wherever the caller had one
Schemes == {"gemini", "titan", "upper", "titanUpper"}
Paths == {"plain", "semicolon", "encSemicolon", "query", "space", "nonascii", "empty"}
Tokens == {"none", "plain", "b64", "semicolon", "space", "sizeInside", "nonascii", "pct"}
Mimes == {"plain", "param", "default"}
SafePaths == Paths \ {"semicolon"}
SafeTokens == Tokens \ {"semicolon", "sizeInside"}
SafeMimes == Mimes \ {"param"}
VARIABLES scheme, path, token, mime, out
vars == <<scheme, path, token, mime, out>>
Pending == [k |-> "pending"]
Init == scheme \in Schemes /\ path \in Paths /\ token \in Tokens /\ mime \in Mimes /\ out = Pending
\* after the repair: a ';' inside the URL, the token or the media type is refused by upload() (it would be read as the start of
\* the next parameter); DevUnescaped is the tree before it
Semi == path = "semicolon" \/ token \in {"semicolon", "sizeInside"} \/ mime = "param"
Eval == /\ out = Pending
        /\ out' = IF scheme \in {"upper", "titanUpper"} THEN [k |-> "clientRefuses"]
                  ELSE IF Semi /\ ~DevUnescaped THEN [k |-> "clientRefuses"]
                  ELSE [k |-> "parsed",
                        path |-> IF path = "semicolon" THEN "cut" ELSE "same",
                        token |-> IF token \in {"semicolon", "sizeInside"} THEN "cut" ELSE "same",
                        size |-> IF token = "sizeInside" THEN "overridden" ELSE "same",
                        mime |-> IF mime = "param" THEN "cut" ELSE "same",
                        content |-> IF token = "sizeInside" THEN "dropped" ELSE "same"]
        /\ UNCHANGED <<scheme, path, token, mime>>
Spec == Init /\ [][Eval]_vars
Done == out.k # "pending"
\* whatever reaches the server is what the caller asked for (C19's last sentence, for uploads)
RoundTrip == (Done /\ out.k = "parsed")
                => (out.path = "same" /\ out.token = "same" /\ out.size = "same" /\ out.mime = "same" /\ out.content = "same")
\* whatever the caller passes, the bytes stored are the caller's bytes or nothing: never other bytes
ContentNeverMangled == (Done /\ out.k = "parsed") => out.content \in {"same", "dropped"}
\* the client refuses only what it says it refuses
RefusesOnlyOddSchemes == (Done /\ out.k = "clientRefuses") => (scheme \in {"upper", "titanUpper"} \/ Semi)
=============================================================================
