INIT OInit
NEXT ONext
CONSTANTS
  IPs = {"a", "b", "c"}
  Params = {}
  Steps = {}
  CleanEvery = 75
  IdleAge = 150
  MaxTime = 1000000
  MaxReq = 1000000
  CleanupFirst = FALSE
  EvictRegardless = FALSE
CONSTRAINT Report
CHECK_DEADLOCK FALSE
