SPECIFICATION Spec
CONSTANTS
  DevVerifyDisablesTofu = FALSE
  DevSchemePrefixed = FALSE
INVARIANT TofuAsRequested
INVARIANT RedirectsAsRequested
INVARIANT VerifyAsRequested
INVARIANT UrlAsGiven
CHECK_DEADLOCK FALSE
