SPECIFICATION Spec
CONSTANTS
  DevVerifyDisablesTofu = FALSE
  DevSchemePrefixed = FALSE
  DevMarkupInterpreted = FALSE
INVARIANT TofuAsRequested
INVARIANT RedirectsAsRequested
INVARIANT VerifyAsRequested
INVARIANT UrlAsGiven
INVARIANT ShownUnchanged
CHECK_DEADLOCK FALSE
