SPECIFICATION Spec
CONSTANTS
  DevVerifyDisablesTofu = FALSE
INVARIANT TofuAsRequested
INVARIANT RedirectsAsRequested
INVARIANT VerifyAsRequested
CHECK_DEADLOCK FALSE
