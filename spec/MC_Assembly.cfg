SPECIFICATION Spec
CONSTANTS
  DevRebuildOnEnv = FALSE
INVARIANT Precedence
INVARIANT RateAsConfigured
INVARIANT AclAsConfigured
INVARIANT CertRulesAsConfigured
INVARIANT FlagNeverIgnored
CHECK_DEADLOCK FALSE
