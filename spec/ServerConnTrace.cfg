INIT TInit
NEXT TNext
CONSTANTS
  MaxReq = 1024
  Streams = {}
  Chains = {}
  HOutcomes = {}
  Uploads = {}
  DataAfterClose = TRUE
  DevNoDispatchedFlag = FALSE
  DevTitanSkipsChain = FALSE
  DevSilentDeny = FALSE
  DevVerbatimRefusal = FALSE
  DevRawResponse = FALSE
CONSTRAINT Report
PROPERTY TimeoutHarmless
PROPERTY TimeoutAnswers
CHECK_DEADLOCK FALSE
