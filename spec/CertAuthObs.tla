--------------------------- MODULE CertAuthObs ---------------------------
(* Observation specification for C05: (rule list, request path, certificate, what the real chain + static handler
   answered, which file's content was delivered - identified from the bytes by the driver).  The property is evaluated
   on the location actually delivered.
     case = [rules: index into MCRules order given by the driver as a sequence of rules, path, trailing, cert, out, served] *)
EXTENDS CertAuth, Json, IOUtils, TLCExt
Cases == JsonDeserialize(IOEnv.TRACE_FILE)
VARIABLES tid, l
C == Cases[tid]
ToSet(seq) == {seq[i] : i \in 1..Len(seq)}
RuleOf(r) == [prefix |-> r.prefix, require |-> r.require, fps |-> IF r.haslist THEN List(ToSet(r.list)) ELSE NoList]
RulesOf(c) == [i \in 1..Len(c.rules) |-> RuleOf(c.rules[i])]
OInit == /\ tid \in 1..Len(Cases) /\ l = 1
         /\ rules = RulesOf(Cases[tid]) /\ path = Cases[tid].path /\ trailing = Cases[tid].trailing
         /\ cert = Cases[tid].cert /\ out = "pending"
ONext == l = 1 /\ l' = 2 /\ out' = C.out /\ UNCHANGED <<tid, rules, path, trailing, cert>>
\* evaluated on what was observed: the delivered file's own location decides which rule covers it
ObsApplied == out = "deliver" => PolicyAt(C.served, cert) = "deliver"
ObsRefusal == (Served # <<"-none-">> /\ Policy # "deliver") => out = Policy
Flags == IF l = 1 THEN <<TRUE, TRUE, TRUE>> ELSE <<ObsApplied, ObsRefusal, out = Result>>
Report == PrintT(<<"REACHED", tid, l, 2, Flags>>)
=============================================================================
