----------------------------- MODULE TofuTrace -----------------------------
(* Trace validation (code -> spec) for Tofu: long random histories executed by the driver on ONE real GeminiClient
   with a real SQLite pin store are recorded - action, what the client call returned, the known_hosts table afterwards,
   which peers received request bytes - and must be behaviours of Tofu; every invariant is evaluated at every step.
     trace = [presents: [a,b,c], tofuOn, steps: << [act: <<name, args...>>, pins: [a,b,c], ok, err, h, got: <<hp...>>], ... >>]
   Host:port pairs are the four constants of MC_Tofu, passed as record fields a / b / c / d.                         *)
EXTENDS Tofu, Json, IOUtils, TLCExt
Traces == JsonDeserialize(IOEnv.TRACE_FILE)
VARIABLES tid, l
T == Traces[tid]
Steps_ == T.steps
Ev == Steps_[l]
HA == "app_1.ex:1965"
HB == "app-1.ex:1965"
HC == "app_1.ex:1966"
HD == "app_1.ex.:1965"        \* the fully qualified spelling (trailing dot): a key of its own in the pin store
OfRec(r) == [h \in HP |-> IF h = HA THEN r.a ELSE IF h = HB THEN r.b ELSE IF h = HC THEN r.c ELSE r.d]
ToSet(seq) == {seq[i] : i \in 1..Len(seq)}
TInit == /\ tid \in 1..Len(Traces) /\ l = 1
         /\ pins = [h \in HP |-> None] /\ presents = OfRec(Traces[tid].presents) /\ tofuOn = Traces[tid].tofuOn
         /\ nops = 0 /\ last = Idle /\ act = <<"Init">>
IsEvent(e) == l <= Len(Steps_) /\ Ev.act[1] = e /\ l' = l + 1 /\ UNCHANGED tid
\* what was observed must be what the action produces
PinsMatch == pins' = OfRec(Ev.pins)
CallMatch == /\ last'.ok = Ev.ok /\ (~Ev.ok => last'.err = Ev.err) /\ last'.h = Ev.h /\ last'.got = ToSet(Ev.got)
TNext == \/ IsEvent("Call") /\ Call(Ev.act[2], Ev.act[3]) /\ PinsMatch /\ CallMatch
         \/ IsEvent("CallDropped") /\ CallDropped(Ev.act[2], Ev.act[3]) /\ PinsMatch /\ CallMatch
         \/ IsEvent("Redirected") /\ Redirected(Ev.act[2], Ev.act[3]) /\ PinsMatch /\ CallMatch
         \/ IsEvent("RedirectRotate") /\ RedirectRotate(Ev.act[2], Ev.act[3], Ev.act[4]) /\ PinsMatch /\ CallMatch
         \/ IsEvent("CallRacing") /\ CallRacing(Ev.act[2], Ev.act[3], Ev.act[4]) /\ PinsMatch /\ CallMatch
         \/ IsEvent("CallStoreFault") /\ CallStoreFault(Ev.act[2], Ev.act[3], Ev.act[4]) /\ PinsMatch /\ CallMatch
         \/ IsEvent("ContextCycle") /\ ContextCycle /\ PinsMatch
         \/ IsEvent("ReopenFault") /\ ReopenFault(Ev.act[2]) /\ PinsMatch
         \/ IsEvent("Rotate") /\ Rotate(Ev.act[2], Ev.act[3]) /\ PinsMatch
         \/ IsEvent("Trust") /\ Trust(Ev.act[2], Ev.act[3]) /\ PinsMatch
         \/ IsEvent("Revoke") /\ Revoke(Ev.act[2]) /\ PinsMatch
         \/ IsEvent("Clear") /\ Clear /\ PinsMatch
         \/ IsEvent("ImportMerge") /\ ImportMerge(Ev.act[2], Ev.act[3]) /\ PinsMatch
         \/ IsEvent("ImportUpdate") /\ ImportUpdate(Ev.act[2], Ev.act[3]) /\ PinsMatch
         \/ IsEvent("ImportReplace") /\ ImportReplace(Ev.act[2], Ev.act[3]) /\ PinsMatch
Flags == << PinRespected, ChangedFails, FirstUsePins, FirstContactPins, FailureKeepsPins, Isolation, UnreadableRefused, NothingToUnverified >>
Report == PrintT(<<"REACHED", tid, l, Len(Steps_) + 1, Flags>>)
=============================================================================
