SPECIFICATION Spec
CONSTANTS
  HP = {"app_1.ex:1965", "app-1.ex:1965", "app_1.ex:1966", "app_1.ex.:1965"}
  Certs = {"c1", "c2"}
  MaxOps = 3
  DevUnreadableSkipsCheck = FALSE
  DevUploadSkipsVerify = FALSE
VIEW View
INVARIANT PinRespected
INVARIANT ChangedFails
INVARIANT FirstUsePins
INVARIANT FirstContactPins
INVARIANT FailureKeepsPins
INVARIANT Isolation
INVARIANT UnreadableRefused
INVARIANT NothingToUnverified
CHECK_DEADLOCK FALSE
