SPECIFICATION Spec
CONSTANTS
  Files = {"a", "b", "u", "n"}
  Watched = {"a", "b", "n"}
  MaxM = 2
  MaxEv = 3
INVARIANT OnlyWatched
INVARIANT MemoryExact
INVARIANT ReturnsIffChanged
PROPERTY Quiescent
PROPERTY NothingLost
CHECK_DEADLOCK FALSE
