---------------------------- MODULE Redirect ----------------------------
(* GeminiClient.get with follow_redirects: _get_with_redirects as a loop over hops.
   The world is a function G from URLs to what the server at that URL answers.       *)
EXTENDS Naturals, Sequences, FiniteSets, TLC
CONSTANTS Urls,            \* gemini URLs (model values / strings)
          MaxMax,          \* max_redirects ranges over 0..MaxMax
          DevOffByOne      \* current code: refuses when Len(chain) >= max *before* fetching
Answers == [k : {"final"}, to : {"-"}] \cup [k : {"redirect"}, to : Urls]
           \cup [k : {"nongemini", "relative", "empty", "badtarget"}, to : {"-"}]
\* "badtarget": a gemini:// target the client must not request (user-info, fragment): the fetch fails
BadUrl == "-bad-"      \* a redirect target that is a gemini URL the client refuses to request
VARIABLES G, max, follow, cur, chain, conns, requested, result
vars == <<G, max, follow, cur, chain, conns, requested, result>>
Init == /\ G \in [Urls -> Answers] /\ max \in 0..MaxMax /\ follow \in BOOLEAN
        /\ cur \in Urls /\ chain = <<>> /\ conns = 0 /\ requested = {} /\ result = "running"
InChain(u) == \E i \in 1..Len(chain) : chain[i] = u
Hop ==
  /\ result = "running"
  /\ UNCHANGED <<G, max, follow>>
  /\ IF follow /\ InChain(cur) THEN result' = "error:loop" /\ UNCHANGED <<cur, chain, conns, requested>>
     ELSE IF follow /\ (IF DevOffByOne THEN Len(chain) >= max ELSE Len(chain) > max)
          THEN result' = "error:toomany" /\ UNCHANGED <<cur, chain, conns, requested>>
     ELSE IF cur = BadUrl THEN result' = "error:badurl" /\ UNCHANGED <<cur, chain, conns, requested>>   \* refused before connecting
     ELSE /\ conns' = conns + 1 /\ requested' = requested \cup {cur}      \* _get_single(cur): one connection
          /\ LET a == G[cur] IN
             IF ~follow THEN result' = (IF a.k = "final" THEN "final" ELSE "redirect-returned") /\ UNCHANGED <<cur, chain>>
             ELSE CASE a.k = "final"     -> result' = "final" /\ UNCHANGED <<cur, chain>>
                    [] a.k = "redirect"  -> chain' = Append(chain, cur) /\ cur' = a.to /\ UNCHANGED result
                    [] a.k = "empty"     -> result' = "error:noredirecturl" /\ UNCHANGED <<cur, chain>>
                    [] a.k = "badtarget" -> chain' = Append(chain, cur) /\ cur' = BadUrl /\ UNCHANGED result
                    [] OTHER             -> result' = "redirect-returned" /\ UNCHANGED <<cur, chain>>   \* non-gemini / relative: handed to the caller
Next == Hop
Spec == Init /\ [][Next]_vars /\ WF_vars(Hop)
\* ---- properties (C16) ----
Bounded == conns <= max + 1
OnlyListed == requested \subseteq Urls            \* never requests anything but gemini URLs of the world
Terminates == <>(result # "running")
\* reference: walk the graph from the start
RECURSIVE Walk(_, _, _)
Walk(u, seen, n) ==      \* outcome of following from u having taken n hops
  IF u \in seen THEN "error:loop"
  ELSE IF n > max THEN "error:toomany"
  ELSE LET a == G[u] IN
       CASE a.k = "final" -> "final"
         [] a.k = "redirect" -> Walk(a.to, seen \cup {u}, n + 1)
         [] a.k = "empty" -> "error:noredirecturl"
         [] a.k = "badtarget" -> IF n + 1 > max THEN "error:toomany" ELSE "error:badurl"
         [] OTHER -> "redirect-returned"
Start == IF chain = <<>> THEN cur ELSE chain[1]
Correct == (result # "running" /\ follow) => result = Walk(Start, {}, 0)
NoFollowSingle == (~follow /\ result # "running") => conns = 1
=============================================================================
