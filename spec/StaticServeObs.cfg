INIT OInit
NEXT ONext
CONSTANTS
  MaxSegs = 0
  SegAlphabet = {}
  DevIndexNotRechecked = FALSE
  DevNoPctDecode = FALSE
  DevLoopLexical = FALSE
  DevClimbAndReturn = FALSE
CONSTRAINT Report
CHECK_DEADLOCK FALSE
