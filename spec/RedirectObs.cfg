INIT OInit
NEXT ONext
CONSTANTS
  Urls = {"u1", "u2", "u3", "u4", "u5", "u6", "u7"}
  MaxMax = 6
  DevOffByOne = FALSE
CONSTRAINT Report
CHECK_DEADLOCK FALSE
