--------------------------- MODULE RateLimitObs ---------------------------
(* Observation specification for RateLimit: `bucket` is bound from what the real limiter shows (level of
   every address after each step), `ref`/`admits` follow the logged arrivals through the reference bucket
   (no eviction); the C10 formulas are evaluated on that.  Decides VIOLATION vs DRIFT for a mismatch.      *)
EXTENDS RateLimit, Json, IOUtils, TLCExt
Traces == JsonDeserialize(IOEnv.TRACE_FILE)
VARIABLES tid, l, iso
ovars == <<vars, tid, l, iso>>
T == Traces[tid]
Steps_ == T.steps
Ev == Steps_[l]
OInit == tid \in 1..Len(Traces) /\ l = 1 /\ InitWith(Traces[tid].par) /\ iso = TRUE
\* a bucket whose level at `t` is lv
Lv(o, i) == IF i = "a" THEN o.a ELSE IF i = "b" THEN o.b ELSE o.c
AsBucket(lv, t) == [present |-> TRUE, tok |-> lv, last |-> t]
ONext ==
  /\ l <= Len(Steps_) /\ l' = l + 1 /\ UNCHANGED <<tid, par>>
  /\ CASE Ev.a = "Advance" ->
            /\ now' = now + Ev.d /\ UNCHANGED <<nextClean, bucket, ref, admits, nreq, lastDec, iso>>
       [] Ev.a = "Request" ->
            /\ LET cr == Consume(ref[Ev.ip], now) IN
               /\ ref' = [ref EXCEPT ![Ev.ip] = cr.b]
               /\ lastDec' = [ip |-> Ev.ip, real |-> Ev.ok, ref |-> cr.ok]
            /\ admits' = [admits EXCEPT ![Ev.ip] = IF Ev.ok THEN Append(@, now) ELSE @]
            /\ bucket' = IF Ev.haslv THEN [i \in IPs |-> AsBucket(Lv(Ev.lv, i), now)]
                          ELSE [bucket EXCEPT ![Ev.ip] = Consume(bucket[Ev.ip], now).b]
            /\ iso' = (iso /\ (Ev.haslv => \A i \in IPs : i # Ev.ip => Lv(Ev.lv, i) = Level(bucket[i], now)))
            /\ nreq' = nreq + 1 /\ UNCHANGED <<now, nextClean>>
       [] Ev.a = "Cleanup" ->
            /\ bucket' = [i \in IPs |-> AsBucket(Lv(Ev.lv, i), now)]
            /\ nextClean' = nextClean + CleanEvery
            /\ UNCHANGED <<now, ref, admits, nreq, lastDec, iso>>
Flags == << CleanupInvisible, SameDecision, Window, iso >>
Report == PrintT(<<"REACHED", tid, l, Len(Steps_) + 1, Flags>>)
=============================================================================
