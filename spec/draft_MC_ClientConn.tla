---- MODULE MC ----
EXTENDS ClientConn
Sc(hl, crlf, cls, st, text, cs, bl, ok, sl, ends, cuts) ==
  [hdrLen |-> hl, crlf |-> crlf, hdrCls |-> cls, status |-> st, text |-> text, charset |-> cs,
   bodyLen |-> bl, bodyOK |-> ok, sendLen |-> sl, ends |-> ends, cuts |-> cuts]
MiB10 == 10485760
MCScripts ==
  { Sc(14, TRUE, "ok", 20, TRUE, "none", 10, TRUE, 26, e, {1, 15, 16, 20, 26}) : e \in {"fin", "rst", "never"} } \cup
  { Sc(14, TRUE, "ok", 20, TRUE, cs, 10, ok, 26, "fin", {16, 26}) : cs \in {"utf8", "latin1", "unknown"}, ok \in BOOLEAN } \cup
  { Sc(14, TRUE, "ok", 20, FALSE, "none", 10, TRUE, sl, "fin", {15, 16, 20, 26}) : sl \in {15, 16, 20, 26} } \cup
  { Sc(14, TRUE, "ok", st, TRUE, "none", 5, TRUE, 21, e, {16, 21}) : st \in {10, 31, 44, 51, 62, 5, 70, 99}, e \in {"fin", "never"} } \cup
  { Sc(14, TRUE, cls, 20, TRUE, "none", 5, TRUE, 21, "fin", {10, 16, 21}) : cls \in {"badUtf8", "badStatus"} } \cup
  { Sc(3000, FALSE, "ok", 20, TRUE, "none", 0, TRUE, 3000, e, {1024, 3000}) : e \in {"fin", "never"} } \cup
  { Sc(14, TRUE, "ok", 20, FALSE, "none", MiB10 + 5, TRUE, 16 + MiB10 + 5, "fin", {16, 16 + MiB10, 16 + MiB10 + 1, 16 + MiB10 + 5}),
    Sc(14, TRUE, "ok", 20, FALSE, "none", MiB10, TRUE, 16 + MiB10, "fin", {16, 16 + MiB10}),
    Sc(MiB10 + 9, FALSE, "ok", 20, TRUE, "none", 0, TRUE, MiB10 + 9, "never", {MiB10, MiB10 + 1, MiB10 + 9}) }
====
