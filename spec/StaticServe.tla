---------------------------- MODULE StaticServe ----------------------------
(* StaticFileHandler.handle over a small family of file trees with symbolic links.
   Pure function: TLC enumerates (tree, request path) and evaluates Serve once.      *)
EXTENDS Naturals, Sequences, FiniteSets, TLC
CONSTANTS MaxSegs,            \* request paths have at most this many segments
          DevIndexNotRechecked \* current code: index file found inside a safe directory is read without re-checking
\* ---- the fixed skeleton -----------------------------------------------------------
\*   TOP/ root/ { a/ { f, idx }, g, L1 }   root2/ { s }   out/ { sec }
Dirs  == {"TOP", "root", "a", "root2", "out"}
Files == {"f", "g", "s", "sec"}
Slots == {"L1", "idx"}                 \* L1 is a link slot in root; idx is a/index.gmi
Nodes == Dirs \cup Files \cup Slots
Parent == [n \in Nodes |-> CASE n \in {"root", "root2", "out", "TOP"} -> "TOP"
                             [] n \in {"a", "g", "L1"} -> "root" [] n \in {"f", "idx"} -> "a"
                             [] n = "s" -> "root2" [] n = "sec" -> "out"]
Name == [n \in Nodes |-> IF n = "idx" THEN "index.gmi" ELSE n]
Targets == (Dirs \ {"TOP"}) \cup Files \cup Slots \cup {"dangling"}
\* what a slot is in a given tree: absent, a regular file, or a link to a target
SlotKinds == {[k |-> "absent", to |-> "-"], [k |-> "file", to |-> "-"]} \cup [k : {"link"}, to : Targets]
SegAlphabet == {"", ".", "..", "a", "f", "g", "L1", "index.gmi", "root2", "x"}
Paths == UNION { [1..n -> SegAlphabet] : n \in 0..MaxSegs }

VARIABLES slot, listing, path, trailing, out
vars == <<slot, listing, path, trailing, out>>

Exists(n) == n \in Dirs \cup Files \/ (n \in Slots /\ slot[n].k # "absent")
IsLink(n) == n \in Slots /\ slot[n].k = "link"
\* follow links from node n; result is a node, "dangling" or "loop"
RECURSIVE Follow(_, _)
Follow(n, hops) ==
  IF n = "dangling" THEN "dangling"
  ELSE IF ~IsLink(n) THEN n
  ELSE IF hops > 2 THEN "loop"
  ELSE Follow(slot[n].to, hops + 1)
Child(d, name) == LET c == {n \in Nodes : Parent[n] = d /\ n # "TOP" /\ Name[n] = name /\ Exists(n)} IN
                  IF c = {} THEN "none" ELSE CHOOSE n \in c : TRUE
IsDirN(n) == n \in Dirs
IsFileN(n) == n \in Files \/ (n \in Slots /\ slot[n].k = "file")
RECURSIVE InsideRoot(_)
InsideRoot(n) == IF n = "root" THEN TRUE ELSE IF n \in {"TOP", "dangling", "loop", "none"} THEN FALSE ELSE InsideRoot(Parent[n])

\* os.path.realpath(strict=False): location = [at: real node, ghost: number of non-existing components below it]
RECURSIVE Resolve(_, _)
Resolve(loc, segs) ==
  IF loc.at = "loop" \/ segs = <<>> THEN loc
  ELSE LET s == Head(segs)  rest == Tail(segs) IN
       IF s = "" \/ s = "." THEN Resolve(loc, rest)
       ELSE IF s = ".." THEN
            IF loc.ghost > 0 THEN Resolve([loc EXCEPT !.ghost = @ - 1], rest)
            ELSE Resolve([at |-> Parent[loc.at], ghost |-> 0], rest)
       ELSE IF loc.ghost > 0 \/ ~IsDirN(loc.at) THEN Resolve([loc EXCEPT !.ghost = @ + 1], rest)   \* below something that is not a directory
       ELSE LET c == Child(loc.at, s) IN
            IF c = "none" THEN Resolve([loc EXCEPT !.ghost = 1], rest)
            ELSE LET t == Follow(c, 0) IN
                 IF t = "loop" THEN [at |-> "loop", ghost |-> 0]
                 ELSE IF t = "dangling" THEN Resolve([at |-> "TOP", ghost |-> 1], rest)     \* a missing name directly under TOP
                 ELSE Resolve([at |-> t, ghost |-> 0], rest)

\* ---- the handler -------------------------------------------------------------------
Resp(st, n, what) == [st |-> st, node |-> n, what |-> what]
Serve ==
  LET loc == Resolve([at |-> "root", ghost |-> 0], path) IN
  IF loc.at = "loop" THEN Resp(40, "none", "error")                       \* resolve() raises RuntimeError
  ELSE IF ~InsideRoot(loc.at) THEN Resp(51, "none", "none")               \* _is_safe_path
  ELSE IF loc.ghost > 0 THEN Resp(51, "none", "none")                     \* does not exist
  ELSE IF IsDirN(loc.at) THEN
       LET idx == Child(loc.at, "index.gmi")
           tgt == IF idx = "none" THEN "none" ELSE Follow(idx, 0) IN
       IF idx # "none" /\ tgt \notin {"dangling", "loop"} /\ IsFileN(tgt) THEN
            IF DevIndexNotRechecked \/ InsideRoot(tgt) THEN Resp(20, tgt, "file")
            ELSE Resp(51, "none", "none")
       ELSE IF listing THEN Resp(20, loc.at, "listing") ELSE Resp(51, "none", "none")
  ELSE IF IsFileN(loc.at) THEN Resp(20, loc.at, "file")
  ELSE Resp(51, "none", "none")

Init == /\ slot \in [Slots -> SlotKinds] /\ listing \in BOOLEAN
        /\ path \in Paths /\ trailing \in BOOLEAN /\ out = Resp(0, "none", "pending")
Eval == out.what = "pending" /\ out' = Serve /\ UNCHANGED <<slot, listing, path, trailing>>
Next == Eval
Spec == Init /\ [][Next]_vars
\* ---- properties (C02) ----------------------------------------------------------------
Safe == out.st \in 20..29 => InsideRoot(out.node)
\* every regular file really located inside the root is served when asked for by its own path
OwnPath(n) == IF n = "root" THEN <<>> ELSE Append(IF Parent[n] = "root" THEN <<>> ELSE <<Name[Parent[n]]>>, Name[n])
Reachable == \A n \in Nodes : (IsFileN(n) /\ Exists(n) /\ InsideRoot(n) /\ path = OwnPath(n) /\ out.what # "pending")
                 => (out.st = 20 /\ out.node = n)
=============================================================================
