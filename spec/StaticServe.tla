---------------------------- MODULE StaticServe ----------------------------
(* StaticFileHandler.handle (server/handler.py) over a family of file trees with symbolic links (C02).
   Pure function: TLC enumerates (tree, request path) in Init and evaluates Serve once (Choose -> Eval).

   Skeleton (TOP is a scratch directory):
       TOP/ root/ { a/ { f, idx=index.gmi }, g, sp="s p", L1 }     root2/ { s }      out/ { sec }
   root is the document root, root2 a sibling whose name extends the root's name, out holds a secret.
   Slots: L1 (an entry of root) and idx (a/index.gmi) are each absent, a regular file, or a symbolic link
   to any directory, file, the other slot, itself, or a dangling name.
   A request path is a sequence of segment tokens; a token may be a percent-encoded spelling.            *)
EXTENDS Naturals, Sequences, FiniteSets, TLC
CONSTANTS MaxSegs,             \* request paths have at most this many segments
          SegAlphabet,         \* tokens a request segment is drawn from
          DevIndexNotRechecked,\* deviation: index file found inside a safe directory is served without re-check
          DevNoPctDecode,      \* deviation: the request path is not percent-decoded
          DevClimbAndReturn,   \* deviation (the tree before its fix): a path above the root that comes back in is served
          DevLoopLexical       \* deviation (the tree before the fix, section 15): what Path.resolve() returns after giving
                               \* up at a symbolic-link loop is trusted as if it were fully resolved
Dirs  == {"TOP", "root", "a", "root2", "out"}
Files == {"f", "g", "sp", "s", "sec"}
Slots == {"L1", "idx"}
Nodes == Dirs \cup Files \cup Slots
Parent == [n \in Nodes |-> CASE n \in {"root", "root2", "out", "TOP"} -> "TOP"
                             [] n \in {"a", "g", "sp", "L1"} -> "root" [] n \in {"f", "idx"} -> "a"
                             [] n = "s" -> "root2" [] n = "sec" -> "out"]
Name == [n \in Nodes |-> CASE n = "idx" -> "index.gmi" [] n = "sp" -> "s p" [] OTHER -> n]
Targets == (Dirs \ {"TOP"}) \cup Files \cup Slots \cup {"dangling"}
SlotKinds == {[k |-> "absent", to |-> "-"], [k |-> "file", to |-> "-"]} \cup [k : {"link"}, to : Targets]
\* percent-decoding of a token: a sequence of decoded segments (an encoded slash separates)
Dec(t) == CASE t = "%2e%2e" -> <<"..">> [] t = "%2E" -> <<".">> [] t = "%66" -> <<"f">>
            [] t = "s%20p" -> <<"s p">> [] t = "a%2ff" -> <<"a", "f">> [] t = "..%2f" -> <<"..", "">>
            [] OTHER -> <<t>>
Raw(t) == <<t>>
Paths == UNION { [1..n -> SegAlphabet] : n \in 0..MaxSegs }

VARIABLES slot, listing, path, trailing, out
vars == <<slot, listing, path, trailing, out>>

Exists(n) == n \in Dirs \cup Files \/ (n \in Slots /\ slot[n].k # "absent")
IsLink(n) == n \in Slots /\ slot[n].k = "link"
\* follow links from node n; result is a node, "dangling" or "loop"
RECURSIVE Follow(_, _)
Follow(n, hops) ==
  IF n = "dangling" \/ (n \in Slots /\ slot[n].k = "absent") THEN "dangling"
  ELSE IF ~IsLink(n) THEN n
  ELSE IF hops > 2 THEN "loop"
  ELSE Follow(slot[n].to, hops + 1)
\* the same, as a location: a link whose target does not exist resolves to "one missing name below the target's parent"
RECURSIVE FollowLoc(_, _)
FollowLoc(n, hops) ==
  IF n = "dangling" THEN [at |-> "TOP", ghost |-> 1]
  ELSE IF n \in Slots /\ slot[n].k = "absent" THEN [at |-> Parent[n], ghost |-> 1]
  ELSE IF ~IsLink(n) THEN [at |-> n, ghost |-> 0]
  ELSE IF hops > 2 THEN [at |-> "loop", ghost |-> 0]
  ELSE FollowLoc(slot[n].to, hops + 1)
Child(d, name) == LET c == {n \in Nodes : Parent[n] = d /\ n # "TOP" /\ Name[n] = name /\ Exists(n)} IN
                  IF c = {} THEN "none" ELSE CHOOSE n \in c : TRUE
IsDirN(n) == n \in Dirs
IsFileN(n) == n \in Files \/ (n \in Slots /\ slot[n].k = "file")
RECURSIVE InsideRoot(_)
InsideRoot(n) == IF n = "root" THEN TRUE ELSE IF n \notin Nodes \/ n = "TOP" THEN FALSE ELSE InsideRoot(Parent[n])

RECURSIVE Flat(_)
Flat(p) == IF p = <<>> THEN <<>> ELSE (IF DevNoPctDecode THEN Raw(Head(p)) ELSE Dec(Head(p))) \o Flat(Tail(p))

\* following links from n runs in a circle: the first link met twice
RECURSIVE LoopAnchor(_, _)
LoopAnchor(n, seen) == IF n \in seen THEN n ELSE LoopAnchor(slot[n].to, seen \cup {n})
\* os.path.realpath(strict=False): location = [at: real node, ghost: number of non-existing components below it]
RECURSIVE Resolve(_, _)
Resolve(loc, segs) ==
  IF loc.at = "loop" \/ segs = <<>> THEN loc
  ELSE LET s == Head(segs)  rest == Tail(segs) IN
       IF s = "" \/ s = "." THEN Resolve(loc, rest)
       ELSE IF s = ".." THEN
            IF loc.ghost > 0 THEN Resolve([loc EXCEPT !.ghost = @ - 1], rest)
            ELSE Resolve([at |-> Parent[loc.at], ghost |-> 0], rest)
       ELSE IF loc.ghost > 0 \/ ~IsDirN(loc.at) THEN Resolve([loc EXCEPT !.ghost = @ + 1], rest)   \* below something that is not a directory
       ELSE LET c == Child(loc.at, s) IN
            IF c = "none" THEN Resolve([loc EXCEPT !.ghost = 1], rest)
            ELSE LET t == FollowLoc(c, 0) IN
                 \* realpath gives up here: it remembers where (directory, name of the link) and what was left of the request
                 \* (the link it meets twice - LoopAnchor - is the first one on the circle, not necessarily the one it started at)
                 IF t.at = "loop" THEN [at |-> "loop", ghost |-> 0, d |-> Parent[LoopAnchor(c, {})], c |-> Name[LoopAnchor(c, {})], rest |-> rest]
                 ELSE Resolve(t, rest)

\* does directory d contain an entry whose stat() fails (dangling or looping link)?  -> listing may fail
BadEntry(d) == \E n \in Slots : Parent[n] = d /\ IsLink(n) /\ Follow(n, 0) \in {"dangling", "loop"}

\* ---- what Path.resolve() does at a symbolic-link loop -------------------------------------------------------------
\* os.path.realpath(strict=False) gives up at the first link it meets twice and returns THAT LINK'S PATH WITH THE REST OF THE
\* REQUEST APPENDED, UNRESOLVED; the result is normalised lexically ("x/.." cancels, links are not looked at) and only
\* stat()ed (a RuntimeError if the stat itself runs into a loop).  LexWalk: lexical normalisation of d/<stack>/<segs>.
RECURSIVE LexWalk(_, _, _)
LexWalk(d, stack, segs) ==
  IF segs = <<>> THEN [d |-> d, names |-> stack]
  ELSE LET s == Head(segs)  rest == Tail(segs) IN
       IF s = "" \/ s = "." THEN LexWalk(d, stack, rest)
       ELSE IF s = ".." THEN (IF stack # <<>> THEN LexWalk(d, SubSeq(stack, 1, Len(stack) - 1), rest)
                              ELSE LexWalk(Parent[d], <<>>, rest))
       ELSE LexWalk(d, Append(stack, s), rest)
\* the lexical path lies under the document root (what relative_to() tests)
LexInside(lw) == InsideRoot(lw.d) \/ (lw.d = "TOP" /\ lw.names # <<>> /\ lw.names[1] = "root")
\* walking d/<names> meets a symbolic link: resolving the path once more would change it
RECURSIVE HasLink(_, _)
HasLink(d, names) ==
  IF names = <<>> THEN FALSE
  ELSE LET c == Child(d, Head(names)) IN
       IF c = "none" THEN FALSE ELSE IF IsLink(c) THEN TRUE ELSE IF IsDirN(c) THEN HasLink(c, Tail(names)) ELSE FALSE

\* ---- the handler -------------------------------------------------------------------
Resp(st, n, what) == [st |-> st, node |-> n, what |-> what, mayfail |-> FALSE]
\* everything after the path has been resolved to loc; contained = the containment test really is about loc
ServeAt(loc, contained) ==
  IF contained /\ ~InsideRoot(loc.at) THEN Resp(51, "none", "none")        \* _is_safe_path
  ELSE IF loc.ghost > 0 THEN Resp(51, "none", "none")                     \* does not exist
  ELSE IF IsDirN(loc.at) THEN
       LET idx == Child(loc.at, "index.gmi")
           tgt == IF idx = "none" THEN "none" ELSE Follow(idx, 0) IN
       IF idx # "none" /\ tgt \notin {"dangling", "loop"} /\ IsFileN(tgt) THEN
            IF DevIndexNotRechecked \/ InsideRoot(tgt) THEN Resp(20, tgt, "file")
            ELSE Resp(51, "none", "none")
       ELSE IF listing THEN [Resp(20, loc.at, "listing") EXCEPT !.mayfail = BadEntry(loc.at)] ELSE Resp(51, "none", "none")
  ELSE IF IsFileN(loc.at) THEN Resp(20, loc.at, "file")
  ELSE Resp(51, "none", "none")
\* the decoded path climbs above the document root at some point, lexically ("/../root/g" comes back in; certificate rules
\* judge the canonical path, where ".." at the root is ignored - the handler refuses what they cannot judge)
RECURSIVE Climbs(_, _)
Climbs(segs, depth) ==
  IF segs = <<>> THEN FALSE
  ELSE LET h == Head(segs) IN
       IF h = "" \/ h = "." THEN Climbs(Tail(segs), depth)
       ELSE IF h = ".." THEN (depth = 0 \/ Climbs(Tail(segs), depth - 1))
       ELSE Climbs(Tail(segs), depth + 1)
Serve ==
  LET loc == Resolve([at |-> "root", ghost |-> 0], Flat(path)) IN
  IF ~DevClimbAndReturn /\ Climbs(Flat(path), 0) THEN Resp(51, "none", "none")
  ELSE IF loc.at # "loop" THEN ServeAt(loc, TRUE)
  ELSE LET lw == LexWalk(loc.d, <<loc.c>>, loc.rest)
           r  == Resolve([at |-> lw.d, ghost |-> 0], lw.names) IN        \* where the operating system ends up from there
       IF r.at = "loop" THEN Resp(40, "none", "error")                    \* resolve()'s own stat() meets the loop: RuntimeError
       ELSE IF DevLoopLexical THEN                                         \* before the fix: only the lexical path is tested
            (IF LexInside(lw) THEN ServeAt(r, FALSE) ELSE Resp(51, "none", "none"))
       ELSE IF HasLink(lw.d, lw.names) THEN Resp(51, "none", "none")      \* resolving once more changes the path: refused
       ELSE ServeAt(r, TRUE)

\* (for the loop instance) some link of the tree runs in a circle
HasLoop == \E n \in Slots : IsLink(n) /\ Follow(n, 0) = "loop"
Init == /\ slot \in [Slots -> SlotKinds] /\ listing \in BOOLEAN
        /\ path \in Paths /\ trailing \in BOOLEAN /\ out = Resp(0, "none", "pending")
Eval == out.what = "pending" /\ out' = Serve /\ UNCHANGED <<slot, listing, path, trailing>>
Next == Eval
Spec == Init /\ [][Next]_vars
\* ---- properties (C02) ----------------------------------------------------------------
\* success carries a file / a listing of a directory located inside the document root
Safe == out.st \in 20..29 => InsideRoot(out.node)
\* every regular file really located inside the root is served when asked for by its own path,
\* written literally or percent-encoded
Lit(n) == Name[n]
Enc(n) == CASE n = "sp" -> "s%20p" [] n = "f" -> "%66" [] OTHER -> Name[n]
OwnPaths(n) == LET dir == IF Parent[n] = "root" THEN <<>> ELSE <<Name[Parent[n]]>> IN
               { Append(dir, Lit(n)), Append(dir, Enc(n)) }
Reachable == \A n \in Nodes : (IsFileN(n) /\ Exists(n) /\ InsideRoot(n) /\ path \in OwnPaths(n) /\ ~trailing /\ out.what # "pending")
                 => (out.st = 20 /\ out.node = n)
=============================================================================
