-------------------------- MODULE ServerConnObs --------------------------
(* Observation specification for ServerConn: every variable is bound from the recorded execution
   (no action of ServerConn constrains it), and the property formulas of ServerConn are evaluated on
   what was observed.  This decides whether a mismatch between code and model violates a *property*
   (VIOLATION) or merely departs from the model while the property still holds (DRIFT).            *)
EXTENDS ServerConn, Json, IOUtils, TLCExt
Traces == JsonDeserialize(IOEnv.TRACE_FILE)
VARIABLES tid, l, aflags, consulted
ovars == <<vars, tid, l, aflags, consulted>>
T == Traces[tid]
Steps == T.steps
Ev == Steps[l]
ToSet(seq) == {seq[i] : i \in 1..Len(seq)}
TraceCfg(t) == [s |-> [lineLen |-> t.cfg.s.lineLen, crlf |-> t.cfg.s.crlf, cls |-> t.cfg.s.cls,
                       tsize |-> t.cfg.s.tsize, after |-> t.cfg.s.after, cuts |-> ToSet(t.cfg.s.cuts)],
                mw |-> t.cfg.mw, h |-> t.cfg.h, hasUpload |-> t.cfg.hasUpload]
\* "a complete request has been received", as a function of the stream and what has been delivered
CompleteAt(c, p) ==
  LET s == c.s IN
  \/ p > MaxReq /\ ~CrlfIn(s, p)
  \/ /\ CrlfIn(s, p)
     /\ \/ s.lineLen + 2 > MaxReq
        \/ s.cls # "titan"
        \/ ~c.hasUpload
        \/ Buffered(s, p) >= s.tsize
OInit == /\ tid \in 1..Len(Traces) /\ l = 1
         /\ cfg = TraceCfg(Traces[tid])
         /\ delivered = 0 /\ lineSeen = FALSE /\ awaiting = FALSE /\ pending = "none" /\ mwIdx = 0
         /\ timer = "armed" /\ tp = "open" /\ wire = <<>> /\ torn = FALSE
         /\ calls = [h |-> 0, u |-> 0, mw |-> 0] /\ peerGone = FALSE /\ complete = FALSE
         /\ aflags = <<TRUE, TRUE, TRUE>> /\ consulted = TRUE
ONext ==
  /\ l <= Len(Steps) /\ l' = l + 1 /\ UNCHANGED <<tid, cfg, lineSeen, awaiting>>
  /\ LET o == Ev.o IN
     /\ wire' = o.wire /\ tp' = o.tp /\ torn' = o.torn
     \* C04: observed by the scripted components: (url, peer address, fingerprint) they were consulted with
     /\ consulted' = (consulted /\ o.consultedOK)
     /\ calls' = [h |-> o.h, u |-> o.u, mw |-> o.mw]
     /\ mwIdx' = o.mw
     /\ pending' = IF o.busy THEN "handler" ELSE "none"
     /\ timer' = IF o.armed THEN "armed" ELSE IF timer = "fired" \/ (Ev.a = "TimerFire" /\ timer = "armed") THEN "fired" ELSE "off"
     /\ delivered' = IF Ev.a = "Data" THEN Ev.p ELSE delivered
     /\ peerGone' = (peerGone \/ Ev.a = "PeerDisconnect")
     /\ complete' = (complete \/ (Ev.a = "Data" /\ CompleteAt(cfg, Ev.p)))
     \* the two action properties of C15, evaluated on this step
     /\ aflags' = << (Ev.a = "TimerFire" /\ timer = "armed" /\ complete) => (o.wire = wire /\ o.tp = tp),
                     (Ev.a = "TimerFire" /\ timer = "armed" /\ ~complete /\ tp = "open")
                         => (Len(o.wire) = 1 /\ o.wire[1].st = 40 /\ o.tp = "closing"),
                     \* C04: the request timer never pre-empts the chain's refusal of a complete request
                     (Ev.a = "TimerFire" /\ timer = "armed" /\ complete /\ ~ChainAllowed) => (o.wire = wire /\ o.tp = tp) >>
Flags == << OneResponse, WellFormed, NeverTorn, ThenClosed, GateC04, NoneBeyondRefusal, FirstRejectionWins,
            AtMostOnce, TimerWhileWaiting, AnsweredWhenQuiet, SegIndep, OnlyValidReachHandler, Progress,
            aflags[1], aflags[2], consulted, aflags[3] >>
Report == PrintT(<<"REACHED", tid, l, Len(Steps) + 1, Flags>>)
=============================================================================
