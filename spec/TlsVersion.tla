---------------------------- MODULE TlsVersion ----------------------------
(* C20: which protocol versions each TLS context that nauyaca constructs will complete a handshake at, and what a
   peer that does not speak TLS obtains.  One negotiation rule per construction path; TLC enumerates
   (construction path x what the peer offers) and evaluates once - the enumeration is then replayed with live sockets
   against permissive peers (security level 0, so that a refusal is the implementation's own).

   Versions: 1 = TLS 1.0, 2 = TLS 1.1, 3 = TLS 1.2, 4 = TLS 1.3  (SSLv3 is not compiled into either OpenSSL here). *)
EXTENDS Naturals, FiniteSets, TLC
CONSTANTS DevDefaultFloor,     \* set of construction paths whose minimum version is left at the library default (deviation)
          DevSwallowKeyFault   \* set of backends that log a key/certificate loading fault and go on listening - without TLS (deviation)
\* material: what the supplied certificate / key files contain.  A pair that cannot be loaded prevents start-up.
\* "bindFault": the files are fine but the first attempt to bind the listening socket fails (EADDRNOTAVAIL, e.g. ::1 without
\* IPv6): whatever the server does about it - give up, retry - it never ends up listening without TLS.
\* "der": the certificate file is DER, not PEM.  The tree refuses to start; a server that learns to load it is still bound by
\* the floor (the driver holds any listener that comes up under a fault to NoOldVersion and PlaintextGetsNothing).
ServerPaths == [backend : {"stdlib", "pyopenssl"}, cert : {"generated"}, material : {"ok"}]
               \cup [backend : {"stdlib", "pyopenssl"}, cert : {"supplied"}, material : {"ok", "mismatch", "garbageKey", "garbageCert", "bindFault", "der"}]
ClientPaths == [mode : {"tofu", "ca"}]
Versions == 1..4
DevOne == {[backend |-> "pyopenssl", cert |-> "generated", material |-> "ok"]}     \* used by the self-test
DevPy == {"pyopenssl"}
Floor(p) == IF p \in DevDefaultFloor THEN 1 ELSE 3
\* the peer is permissive (accepts 1..peerMax); the result is the highest common version not below the floor
Negotiate(p, peerMax) == IF peerMax >= Floor(p) THEN peerMax ELSE 0          \* 0 = handshake refused
Inputs == [kind : {"tls"}, max : Versions] \cup [kind : {"plainRequest", "randomBytes"}, max : {0}]
VARIABLES path, input, out
vars == <<path, input, out>>
Pending == [version |-> 99, header |-> FALSE, handler |-> FALSE]
Init == /\ path \in ServerPaths \cup ClientPaths
        /\ input \in (IF path \in ClientPaths THEN [kind : {"tls"}, max : Versions] ELSE Inputs)
        /\ out = Pending
Nothing == [version |-> 0, header |-> FALSE, handler |-> FALSE]
Faulty == path \in ServerPaths /\ path.material # "ok"
Eval == /\ out = Pending
        /\ out' = IF Faulty THEN       \* no listener at all - unless the fault is swallowed: then a listener without TLS
                        (IF path.backend \in DevSwallowKeyFault /\ input.kind = "plainRequest"
                           THEN [version |-> 0, header |-> TRUE, handler |-> TRUE] ELSE Nothing)
                   ELSE IF input.kind = "tls"
                    THEN LET v == Negotiate(path, input.max) IN [version |-> v, header |-> v # 0, handler |-> v # 0]
                    ELSE [version |-> 0, header |-> FALSE, handler |-> FALSE]    \* bytes that are not TLS: nothing
        /\ UNCHANGED <<path, input>>
Spec == Init /\ [][Eval]_vars
\* ---- properties (C20) ----
NoOldVersion == out # Pending => out.version \in {0, 3, 4}
PlaintextGetsNothing == (out # Pending /\ input.kind # "tls") => (~out.header /\ ~out.handler /\ out.version = 0)
ModernAccepted == (out # Pending /\ input.kind = "tls" /\ input.max >= 3 /\ ~Faulty) => out.version = input.max
=============================================================================
