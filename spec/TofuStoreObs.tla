-------------------------- MODULE TofuStoreObs --------------------------
(* Observation specification for C12: (store before, operation, fault injected at a statement boundary, how the
   operation ended, store found after reopening the file).  The C12 formulas are evaluated on what was found.
     case = [before: [h1, h2], op: [...], outcome: "ok" | "raised" | "crashed", final: [h1, h2]]               *)
EXTENDS TofuStore, Json, IOUtils, TLCExt
Cases == JsonDeserialize(IOEnv.TRACE_FILE)
VARIABLES tid, l
C == Cases[tid]
StoreOf(r) == [h \in Hosts |-> IF h = "h1" THEN r.h1 ELSE IF h = "h2" THEN r.h2 ELSE r.h3]
OpOf(o) == [kind |-> o.kind, h |-> o.h, fp |-> o.fp, merge |-> o.merge, entries |-> o.entries, policy |-> o.policy]
OInit == /\ tid \in 1..Len(Cases) /\ l = 1
         /\ committed = StoreOf(Cases[tid].before) /\ before = StoreOf(Cases[tid].before)
         /\ op = OpOf(Cases[tid].op) /\ txn = NoTxn /\ pc = 0 /\ outcome = "running"
ONext == /\ l = 1 /\ l' = 2 /\ UNCHANGED <<tid, op, before, txn>>
         /\ committed' = StoreOf(C.final) /\ outcome' = C.outcome /\ pc' = DonePc
\* all-or-nothing: exactly as before, or exactly as after the operation; completed => after; raised => before
AllOrNothing == committed \in {before, After(before, op)}
Completed == outcome = "ok" => committed = After(before, op)
RaisedUntouched == outcome = "raised" => committed = before
Flags == IF l = 1 THEN <<TRUE, TRUE, TRUE, TRUE, TRUE>>
         ELSE <<AllOrNothing, Completed, RaisedUntouched, FailureRaises, OthersUntouched>>
Report == PrintT(<<"REACHED", tid, l, 2, Flags>>)
=============================================================================
