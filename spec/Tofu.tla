---------------------------- MODULE Tofu ----------------------------
(* Trust-on-first-use as the client applies it (client/session.py + security/tofu.py): histories of fetches,
   uploads, redirected fetches and trust-store operations against hosts whose certificates may change (C03),
   with what each peer received (C11) and the pin check of every redirect hop (C16).
   A client call is atomic here; its internal order is ClientConn's business.

   One client object lives through the whole history (so a cache kept across calls would show).        *)
EXTENDS Naturals, Sequences, FiniteSets, TLC
CONSTANTS HP,            \* host:port pairs (strings "host:port")
          Certs,         \* readable certificates
          MaxOps,
          DevUnreadableSkipsCheck,  \* deviation: a certificate that cannot be parsed disables the check
          DevUploadSkipsVerify      \* example of a one-entry-point regression (must be caught)
None == "none"
Bad == "unreadable"          \* what a host presents when its certificate cannot be parsed
VARIABLES pins, presents, tofuOn, nops, last, act
vars == <<pins, presents, tofuOn, nops, last, act>>
View == <<pins, presents, tofuOn, nops, last>>
\* last = the most recent client call: [op, h, ok, err, before: pins before the failing/succeeding connection,
\*        shown: what that host presented, got: set of hosts that received request bytes during the call]
Idle == [op |-> "none", h |-> None, ok |-> FALSE, err |-> "", before |-> [x \in HP |-> None], shown |-> None, got |-> {}]
Init == /\ pins = [h \in HP |-> None] /\ presents \in [HP -> Certs \cup {Bad}]
        /\ tofuOn \in BOOLEAN /\ nops = 0 /\ last = Idle /\ act = <<"Init">>
Step == nops < MaxOps /\ nops' = nops + 1

\* one connection to h by entry point ep ("get" | "upload"): <<ok, err, pins', request bytes left the client>>
Connect(ep, h, p) ==
  LET c == presents[h] IN
  IF ~tofuOn \/ (ep = "upload" /\ DevUploadSkipsVerify) THEN <<TRUE, "", p, TRUE>>
  ELSE IF c = Bad THEN IF DevUnreadableSkipsCheck THEN <<TRUE, "", p, TRUE>> ELSE <<FALSE, "unreadable", p, FALSE>>
  ELSE IF p[h] = None THEN <<TRUE, "", [p EXCEPT ![h] = c], TRUE>>          \* first use: pin what was presented
  ELSE IF p[h] = c THEN <<TRUE, "", p, TRUE>>
  ELSE <<FALSE, "changed", p, FALSE>>

Call(ep, h) == /\ Step
               /\ LET r == Connect(ep, h, pins) IN
                  /\ pins' = r[3]
                  /\ last' = [op |-> ep, h |-> h, ok |-> r[1], err |-> r[2], before |-> pins, shown |-> presents[h],
                              got |-> IF r[4] THEN {h} ELSE {}]
               /\ act' = <<"Call", ep, h>>
               /\ UNCHANGED <<presents, tofuOn>>
\* the same, but the peer drops the connection after the request without answering: the call fails, yet the
\* certificate was verified (and pinned on first use) when the connection was made
CallDropped(ep, h) ==
  /\ Step
  /\ LET r == Connect(ep, h, pins) IN
     /\ pins' = r[3]
     /\ last' = [op |-> ep, h |-> h, ok |-> FALSE, err |-> IF r[1] THEN "dropped" ELSE r[2], before |-> pins,
                 shown |-> presents[h], got |-> IF r[4] THEN {h} ELSE {}]
  /\ act' = <<"CallDropped", ep, h>>
  /\ UNCHANGED <<presents, tofuOn>>
\* a fetch of h1 that is redirected to h2: two connections, each checked; stops at the first failure
Redirected(h1, h2) ==
  /\ Step /\ h1 # h2
  /\ LET r1 == Connect("get", h1, pins) IN
     IF ~r1[1] THEN /\ pins' = r1[3]
                    /\ last' = [op |-> "get", h |-> h1, ok |-> FALSE, err |-> r1[2], before |-> pins, shown |-> presents[h1], got |-> {}]
     ELSE LET r2 == Connect("get", h2, r1[3]) IN
          /\ pins' = r2[3]
          /\ last' = [op |-> "hop", h |-> h2, ok |-> r2[1], err |-> r2[2], before |-> r1[3], shown |-> presents[h2],
                      got |-> {h1} \cup (IF r2[4] THEN {h2} ELSE {})]
  /\ act' = <<"Redirected", h1, h2>>
  /\ UNCHANGED <<presents, tofuOn>>
\* the same, but the certificate h2 presents changes to c between the two connections (h2 may be h1 itself:
\* a redirect to another path of the same capsule)
RedirectRotate(h1, h2, c) ==
  /\ Step /\ presents[h2] # c
  /\ LET r1 == Connect("get", h1, pins) IN
     IF ~r1[1] THEN /\ pins' = r1[3] /\ presents' = presents
                    /\ last' = [op |-> "get", h |-> h1, ok |-> FALSE, err |-> r1[2], before |-> pins, shown |-> presents[h1], got |-> {}]
     ELSE LET pr == [presents EXCEPT ![h2] = c]
              c2 == pr[h2]
              p1 == r1[3]
              r2 == IF ~tofuOn THEN <<TRUE, "", p1, TRUE>>
                    ELSE IF c2 = Bad THEN (IF DevUnreadableSkipsCheck THEN <<TRUE, "", p1, TRUE>> ELSE <<FALSE, "unreadable", p1, FALSE>>)
                    ELSE IF p1[h2] = None THEN <<TRUE, "", [p1 EXCEPT ![h2] = c2], TRUE>>
                    ELSE IF p1[h2] = c2 THEN <<TRUE, "", p1, TRUE>>
                    ELSE <<FALSE, "changed", p1, FALSE>> IN
          /\ pins' = r2[3] /\ presents' = pr
          /\ last' = [op |-> "hop", h |-> h2, ok |-> r2[1], err |-> r2[2], before |-> p1, shown |-> c2,
                      got |-> {h1} \cup (IF r2[4] THEN {h2} ELSE {})]
  /\ act' = <<"RedirectRotate", h1, h2, c>>
  /\ UNCHANGED tofuOn
\* another user of the same pin store (a second client, `nauyaca tofu trust`) pins h := c while this call's connection is
\* being established: the check made after the handshake sees the store as it is then
CallRacing(ep, h, c) ==
  /\ Step /\ tofuOn
  /\ LET p1 == [pins EXCEPT ![h] = c]
         r == Connect(ep, h, p1) IN
     /\ pins' = r[3]
     /\ last' = [op |-> ep, h |-> h, ok |-> r[1], err |-> r[2], before |-> p1, shown |-> presents[h],
                 got |-> IF r[4] THEN {h} ELSE {}]
  /\ act' = <<"CallRacing", ep, h, c>>
  /\ UNCHANGED <<presents, tofuOn>>
\* the k-th statement the call issues against the pin store fails ("database is locked", I/O error): the call either
\* fails safely - nothing sent, nothing pinned - or (the statement was not essential / there was no k-th one) ends as Call
CallStoreFault(ep, h, k) ==
  /\ Step
  /\ \/ /\ tofuOn /\ pins' = pins
        /\ last' = [op |-> ep, h |-> h, ok |-> FALSE, err |-> "store", before |-> pins, shown |-> presents[h], got |-> {}]
     \/ LET r == Connect(ep, h, pins) IN
        /\ pins' = r[3]
        /\ last' = [op |-> ep, h |-> h, ok |-> r[1], err |-> r[2], before |-> pins, shown |-> presents[h],
                    got |-> IF r[4] THEN {h} ELSE {}]
  /\ act' = <<"CallStoreFault", ep, h, k>>
  /\ UNCHANGED <<presents, tofuOn>>
\* the client object is used as a context manager and used again afterwards: leaving the block changes nothing
ContextCycle == /\ Step /\ last' = Idle /\ act' = <<"ContextCycle">> /\ UNCHANGED <<pins, presents, tofuOn>>
\* another client object is created on the same pin store while the k-th statement of opening the store fails: whether or not
\* that client comes up, the pins are what they were
ReopenFault(k) == /\ Step /\ last' = Idle /\ act' = <<"ReopenFault", k>> /\ UNCHANGED <<pins, presents, tofuOn>>
Rotate(h, c) == /\ Step /\ presents[h] # c /\ presents' = [presents EXCEPT ![h] = c] /\ last' = Idle
                /\ act' = <<"Rotate", h, c>> /\ UNCHANGED <<pins, tofuOn>>
Trust(h, c)  == /\ Step /\ tofuOn /\ pins' = [pins EXCEPT ![h] = c] /\ last' = Idle
                /\ act' = <<"Trust", h, c>> /\ UNCHANGED <<presents, tofuOn>>
Revoke(h)    == /\ Step /\ tofuOn /\ pins[h] # None /\ pins' = [pins EXCEPT ![h] = None] /\ last' = Idle
                /\ act' = <<"Revoke", h>> /\ UNCHANGED <<presents, tofuOn>>
Clear        == /\ Step /\ tofuOn /\ pins' = [h \in HP |-> None] /\ last' = Idle
                /\ act' = <<"Clear">> /\ UNCHANGED <<presents, tofuOn>>
\* import of a file with the single entry (h, c); conflicts are skipped (no callback)
ImportMerge(h, c)   == /\ Step /\ tofuOn /\ pins' = (IF pins[h] = None THEN [pins EXCEPT ![h] = c] ELSE pins) /\ last' = Idle
                       /\ act' = <<"ImportMerge", h, c>> /\ UNCHANGED <<presents, tofuOn>>
\* merge import whose conflict callback says "update": the file's fingerprint replaces the pin
ImportUpdate(h, c)  == /\ Step /\ tofuOn /\ pins' = [pins EXCEPT ![h] = c] /\ last' = Idle
                       /\ act' = <<"ImportUpdate", h, c>> /\ UNCHANGED <<presents, tofuOn>>
ImportReplace(h, c) == /\ Step /\ tofuOn /\ pins' = [x \in HP |-> IF x = h THEN c ELSE None] /\ last' = Idle
                       /\ act' = <<"ImportReplace", h, c>> /\ UNCHANGED <<presents, tofuOn>>
Next == \/ \E ep \in {"get", "upload"}, h \in HP : Call(ep, h)
        \/ \E ep \in {"get", "upload"}, h \in HP : CallDropped(ep, h)
        \/ \E h1 \in HP, h2 \in HP : Redirected(h1, h2)
        \/ \E h \in HP, c \in Certs \cup {Bad} : Rotate(h, c)
        \/ \E h \in HP, c \in Certs : Trust(h, c)
        \/ \E h \in HP : Revoke(h)
        \/ Clear
        \/ \E h \in HP, c \in Certs : ImportMerge(h, c)
        \/ \E h \in HP, c \in Certs : ImportReplace(h, c)
        \/ \E h \in HP, c \in Certs : ImportUpdate(h, c)
        \/ \E h1 \in HP, h2 \in HP, c \in Certs \cup {Bad} : RedirectRotate(h1, h2, c)
        \/ \E ep \in {"get", "upload"}, h \in HP, c \in Certs : CallRacing(ep, h, c)
        \/ \E ep \in {"get", "upload"}, h \in HP, k \in 0..3 : CallStoreFault(ep, h, k)
        \/ ContextCycle
        \/ \E k \in 0..3 : ReopenFault(k)
Spec == Init /\ [][Next]_vars
\* ---- properties (C03) ----
Called == last.op # "none" /\ tofuOn
PinRespected == (Called /\ last.ok) => (last.shown # Bad /\ last.before[last.h] \in {None, last.shown})
\* (when the pin store itself fails during the call the error may be the store's: the call still fails and nothing changes)
ChangedFails == (Called /\ last.shown # Bad /\ last.before[last.h] \notin {None, last.shown})
                   => (~last.ok /\ (last.err = "changed" \/ (act[1] = "CallStoreFault" /\ last.err = "store")) /\ pins = last.before)
FirstUsePins == (Called /\ last.ok /\ last.before[last.h] = None) => pins[last.h] = last.shown
FailureKeepsPins == (Called /\ ~last.ok /\ last.err \in {"changed", "unreadable", "store"}) => pins = last.before
\* the pin is written when the certificate is verified, not when (and if) a response arrives
FirstContactPins == (Called /\ last.err = "dropped" /\ last.before[last.h] = None) => pins[last.h] = last.shown
Isolation == Called => \A h \in HP : h # last.h => pins[h] = last.before[h]
UnreadableRefused == (Called /\ last.shown = Bad) => ~last.ok
\* C11 over histories: a host whose certificate failed verification has received nothing
\* (whatever the call returned: a host presenting a certificate that is not acceptable never receives request bytes)
Unacceptable == last.shown = Bad \/ last.before[last.h] \notin {None, last.shown}
\* (for a redirect back to the same host:port the first, acceptable, connection did receive its request: op = "hop" with
\*  last.h among the earlier hops is judged by the driver per connection)
NothingToUnverified == (Called /\ Unacceptable /\ ~(last.op = "hop" /\ act[1] = "RedirectRotate" /\ act[2] = act[3])) => last.h \notin last.got
=============================================================================
