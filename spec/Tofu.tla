---------------------------- MODULE Tofu ----------------------------
(* Trust-on-first-use as the client applies it: histories of fetches, uploads, redirect hops
   and trust-store operations against hosts whose certificates may change (C03).
   A client call is atomic here; its internal order is ClientConn's business (C11).     *)
EXTENDS Naturals, Sequences, FiniteSets, TLC
CONSTANTS HP,            \* host:port pairs
          Certs,         \* readable certificates (fingerprints)
          MaxOps,
          DevUnreadableSkipsCheck,  \* current code: a certificate that cannot be parsed disables the check
          DevUploadSkipsVerify      \* example of a one-entry-point regression (must be caught)
None == "none"
Bad == "unreadable"          \* what a host presents when its certificate cannot be parsed
VARIABLES pins, presents, tofuOn, nops, last
vars == <<pins, presents, tofuOn, nops, last>>
\* last = [op, h, ok, err, pinsBefore] : the most recent client call
Idle == [op |-> "none", h |-> None, ok |-> FALSE, err |-> "", before |-> [x \in HP |-> None], shown |-> None]
Init == /\ pins = [h \in HP |-> None] /\ presents \in [HP -> Certs \cup {Bad}]
        /\ tofuOn \in BOOLEAN /\ nops = 0 /\ last = Idle
Step == nops < MaxOps /\ nops' = nops + 1

\* one connection to h by entry point ep ("get" | "upload"): returns <<ok, err, pins'>>
Connect(ep, h, p) ==
  LET c == presents[h] IN
  IF ~tofuOn \/ (ep = "upload" /\ DevUploadSkipsVerify) THEN <<TRUE, "", p>>
  ELSE IF c = Bad THEN IF DevUnreadableSkipsCheck THEN <<TRUE, "", p>> ELSE <<FALSE, "unreadable", p>>
  ELSE IF p[h] = None THEN <<TRUE, "", [p EXCEPT ![h] = c]>>          \* first use: pin what was presented
  ELSE IF p[h] = c THEN <<TRUE, "", p>>
  ELSE <<FALSE, "changed", p>>

Call(ep, h) == /\ Step
               /\ LET r == Connect(ep, h, pins) IN
                  /\ pins' = r[3]
                  /\ last' = [op |-> ep, h |-> h, ok |-> r[1], err |-> r[2], before |-> pins, shown |-> presents[h]]
               /\ UNCHANGED <<presents, tofuOn>>
\* a fetch of h1 that is redirected to h2: two connections, each checked; stops at the first failure
Redirected(h1, h2) ==
  /\ Step
  /\ LET r1 == Connect("get", h1, pins) IN
     IF ~r1[1] THEN /\ pins' = r1[3]
                    /\ last' = [op |-> "get", h |-> h1, ok |-> FALSE, err |-> r1[2], before |-> pins, shown |-> presents[h1]]
     ELSE LET r2 == Connect("get", h2, r1[3]) IN
          /\ pins' = r2[3]
          /\ last' = [op |-> "hop", h |-> h2, ok |-> r2[1], err |-> r2[2], before |-> r1[3], shown |-> presents[h2]]
  /\ UNCHANGED <<presents, tofuOn>>
Rotate(h, c) == /\ Step /\ presents[h] # c /\ presents' = [presents EXCEPT ![h] = c] /\ last' = Idle /\ UNCHANGED <<pins, tofuOn>>
Trust(h, c)  == /\ Step /\ pins' = [pins EXCEPT ![h] = c] /\ last' = Idle /\ UNCHANGED <<presents, tofuOn>>
Revoke(h)    == /\ Step /\ pins[h] # None /\ pins' = [pins EXCEPT ![h] = None] /\ last' = Idle /\ UNCHANGED <<presents, tofuOn>>
Clear        == /\ Step /\ pins' = [h \in HP |-> None] /\ last' = Idle /\ UNCHANGED <<presents, tofuOn>>
Next == \/ \E ep \in {"get", "upload"}, h \in HP : Call(ep, h)
        \/ \E h1 \in HP, h2 \in HP : Redirected(h1, h2)
        \/ \E h \in HP, c \in Certs \cup {Bad} : Rotate(h, c)
        \/ \E h \in HP, c \in Certs : Trust(h, c)
        \/ \E h \in HP : Revoke(h)
        \/ Clear
Spec == Init /\ [][Next]_vars
\* ---- properties (C03) ----
Called == last.op # "none" /\ tofuOn
PinRespected == (Called /\ last.ok) => (last.shown # Bad /\ last.before[last.h] \in {None, last.shown})
ChangedFails == (Called /\ last.shown # Bad /\ last.before[last.h] \notin {None, last.shown}) => (~last.ok /\ last.err = "changed" /\ pins = last.before)
FirstUsePins == (Called /\ last.ok /\ last.before[last.h] = None) => pins[last.h] = last.shown
FailureKeepsPins == (Called /\ ~last.ok) => pins = last.before
Isolation == Called => \A h \in HP : h # last.h => pins[h] = last.before[h]
UnreadableRefused == (Called /\ last.shown = Bad) => ~last.ok
=============================================================================
