INIT TInit
NEXT TNext
CONSTANTS
  HP = {"app_1.ex:1965", "app-1.ex:1965", "app_1.ex:1966", "app_1.ex.:1965"}
  Certs = {"c1", "c2"}
  MaxOps = 100000
  DevUnreadableSkipsCheck = FALSE
  DevUploadSkipsVerify = FALSE
CONSTRAINT Report
CHECK_DEADLOCK FALSE
