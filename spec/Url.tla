---------------------------- MODULE Url ----------------------------
(* Request-line / URL grammar of nauyaca (utils/url.py, protocol/request.py, the line handling of
   server/protocol.py) for C08 and C19.  A URL is a record of component KINDS; the driver owns the concrete
   spellings (several per kind).  TLC enumerates the full product and evaluates, once per URL:
     Verdict      "accept" | "reject" | "grey"       (what the protocol grammar demands)
     Expect       the components a handler must see for an accepted URL: host kind, port number, path kind, query kind
     Norm         the component kinds of the normalised form (C19)
   The enumeration is replayed over the wire path (data_received of the real server protocol with spy handler
   and spy middleware) and through parse_url / normalize_url / validate_url.                                  *)
EXTENDS Naturals, FiniteSets, TLC
Schemes   == {"gemini", "GEMINI", "http", "titan", "none"}
UserInfos == {"none", "user", "userpw", "pwonly", "empty", "colononly"}      \* colononly: ":@" - user-info that consists of the separator alone
Hosts     == {"reg", "REG", "ipv4", "v6", "v6zone", "missing", "v6bare", "v6junk", "vfuture"}
             \* v6junk: characters around the brackets ("junk[::1]junk"); vfuture: brackets around something that is not an
             \* IPv6 address ("[v1.ab]", RFC 3986 IPvFuture): nothing can connect to it, and without its brackets it is a DNS name
Ports     == {"absent", "emptycolon", "1965", "0", "65535", "65536", "abc", "7070"}
PathKs    == {"empty", "root", "plain", "pct", "params", "dslash", "dots", "ctl"}      \* ctl: a raw TAB, LF or CR inside (what the URL parser would delete silently)
Queries   == {"absent", "emptyq", "plain", "qmark"}
Frags     == {"absent", "frag", "emptyfrag"}
Lens      == {"short", "max", "over"}        \* line + CRLF: well below / exactly 1024 / 1025 bytes
Urls == [scheme : Schemes, user : UserInfos, host : Hosts, port : Ports, path : PathKs, query : Queries, frag : Frags, len : Lens]
VARIABLES u, uploads, out
vars == <<u, uploads, out>>

PortNumber(p) == CASE p = "absent" -> 1965 [] p = "emptycolon" -> 1965 [] p = "1965" -> 1965 [] p = "0" -> 0
                   [] p = "65535" -> 65535 [] p = "7070" -> 7070 [] OTHER -> 99999
PortOk(p) == p \notin {"65536", "abc"}
HostOk(h) == h \notin {"missing", "v6bare", "v6junk", "vfuture"}
\* a gemini:// URL that satisfies the protocol grammar
\* (an empty user-info "@" and an empty fragment "#" were left undecided until the third hunt: they are a user-info and a
\*  fragment - the Titan parser already refused them, and a client that sends what it was given got 59 for URLs the
\*  library had accepted)
Wellformed(x) == /\ x.user = "none" /\ HostOk(x.host) /\ PortOk(x.port) /\ x.path # "ctl"
                 /\ x.frag = "absent" /\ x.len # "over"
\* grey zone left undecided: upper-case scheme
Grey(x) == Wellformed(x) /\ x.scheme = "GEMINI"
\* titan lines are judged by C08 only for "refused with 50 when uploads are off"; their grammar is ServerConn's business
Verdict(x, up) ==
  IF x.scheme = "titan" THEN (IF ~up /\ x.len # "over" THEN "refuse50" ELSE "grey")
  ELSE IF x.scheme \in {"http", "none"} THEN "reject"
  ELSE IF ~Wellformed(x) THEN "reject"
  ELSE IF Grey(x) THEN "grey"
  ELSE "accept"
\* what the handler must see (kinds; the driver maps kinds to the concrete expected strings)
HostSeen(h) == CASE h = "REG" -> "reg" [] OTHER -> h          \* host names are case-insensitive: lower-cased
Expect(x) == [host |-> HostSeen(x.host), port |-> PortNumber(x.port),
              path |-> IF x.path = "empty" THEN "root" ELSE x.path, query |-> IF x.query = "emptyq" THEN "absent" ELSE x.query]
\* C19: the normal form keeps host (lower-cased, brackets kept), port unless it is the default, path ("/" for empty), query
Norm(x) == [scheme |-> "gemini", user |-> "none", host |-> HostSeen(x.host),
            port |-> IF PortNumber(x.port) = 1965 THEN "absent" ELSE x.port,
            path |-> IF x.path = "empty" THEN "root" ELSE x.path,
            query |-> x.query, frag |-> "absent",      \* an empty query stays: "a?" is not "a"
            \* an empty path becomes "/": one byte longer - a URL already at the 1024-byte limit no longer fits
            len |-> IF x.path = "empty" /\ x.len = "max" /\ PortNumber(x.port) # 1965 THEN "over"
                    ELSE IF x.path = "empty" /\ x.len = "max" /\ x.port \in {"absent"} THEN "over" ELSE x.len]
Init == u \in Urls /\ uploads \in BOOLEAN /\ out = "pending"
Eval == out = "pending" /\ out' = Verdict(u, uploads) /\ UNCHANGED <<u, uploads>>
Spec == Init /\ [][Eval]_vars
\* ---- properties of the grammar itself ----
\* C19: normalising is idempotent and meaning-preserving on accepted URLs (on kinds)
Idempotent == (u.scheme \in {"gemini", "GEMINI"} /\ Wellformed(u)) => Norm(Norm(u)) = Norm(u)
MeaningPreserved == (u.scheme \in {"gemini", "GEMINI"} /\ Wellformed(u)) => Expect(Norm(u)) = Expect(u)
\* known limit (recorded as a finding): an accepted URL with an empty path that is exactly at the length limit has a
\* normal form one byte over it
AtLimitEmptyPath(x) == x.path = "empty" /\ x.len = "max" /\ Norm(x).len = "over"
NormalizedWellformed == (u.scheme \in {"gemini", "GEMINI"} /\ Wellformed(u) /\ ~AtLimitEmptyPath(u)) => Wellformed(Norm(u))
\* C08: user-info, fragment, foreign scheme, missing host, bad port and over-long lines are never accepted
NeverAcceptsBad == (out = "accept") => (u.scheme = "gemini" /\ u.user = "none" /\ u.frag = "absent" /\ HostOk(u.host) /\ PortOk(u.port) /\ u.len # "over" /\ u.path # "ctl")
=============================================================================
