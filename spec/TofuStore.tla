---------------------------- MODULE TofuStore ----------------------------
(* The TOFU pin store (security/tofu.py) with SQLite's transaction semantics made explicit:
   `committed` is what any new connection (or a reopened file) sees; `txn` is the working
   copy of the connection running the current operation; a crash or an exception before
   COMMIT discards it.  One action per SQL statement boundary.                          *)
EXTENDS Naturals, Sequences, FiniteSets, TLC
CONSTANTS Hosts, Fps,
          Ops,                       \* set of operations to explore (records, see MC)
          DevReplaceClearsInOwnTxn,  \* current import_toml(merge=False): self.clear() commits first
          DevExistenceViaSecondConn  \* current import_toml: get_host_info() reads `committed`, not `txn`
None == "none"
\* the host name of a host:port pair: "h3" is "h1"'s name on another port (a name may be pinned on several ports)
NameOf(h) == IF h = "h3" THEN "h1" ELSE h
CommitPc == 100
DonePc == 200
Empty == [h \in Hosts |-> None]
Store == [Hosts -> Fps \cup {None}]
VARIABLES committed, txn, op, pc, before, outcome
vars == <<committed, txn, op, pc, before, outcome>>
\* an import file is a sequence of entries [h, fp, ok]; ok = FALSE is a malformed entry
\* op = [kind: "trust"|"revoke"|"clear"|"import", h, fp, merge, entries, policy: "skip"|"update"|"raise"]

\* ---- functional meaning of an operation (what `after` must be) ----------------------
RECURSIVE ApplyEntries(_, _, _)
ApplyEntries(s, es, policy) ==
  IF es = <<>> THEN s
  ELSE LET e == Head(es) IN
       IF s[e.h] = None THEN ApplyEntries([s EXCEPT ![e.h] = e.fp], Tail(es), policy)
       ELSE IF s[e.h] = e.fp \/ policy = "skip" THEN ApplyEntries(s, Tail(es), policy)
       ELSE ApplyEntries([s EXCEPT ![e.h] = e.fp], Tail(es), policy)
Wellformed(o) == \A i \in 1..Len(o.entries) : o.entries[i].ok
NoDup(o) == \A i, j \in 1..Len(o.entries) : i # j => o.entries[i].h # o.entries[j].h
Conflicts(s, o) == \E i \in 1..Len(o.entries) : s[o.entries[i].h] \notin {None, o.entries[i].fp}
Fails(s, o) == o.kind = "import" /\ (~Wellformed(o)
                  \/ (o.policy = "raise" /\ Conflicts(IF o.merge THEN s ELSE [h \in Hosts |-> None], o)))
After(s, o) ==
  CASE o.kind = "trust"  -> [s EXCEPT ![o.h] = o.fp]
    [] o.kind = "revoke" -> [s EXCEPT ![o.h] = None]
    \* revoke by host name (`nauyaca tofu revoke HOST` without a port): every pin of that NAME, on any port - and of no other name
    [] o.kind = "revokeName" -> [x \in Hosts |-> IF NameOf(x) = NameOf(o.h) THEN None ELSE s[x]]
    \* revoke(host, port) with a port no pin is stored under (0, or none at all handed through by a caller): names nothing
    [] o.kind = "revokeNoPort" -> s
    [] o.kind = "clear"  -> [h \in Hosts |-> None]
    [] o.kind = "import" -> IF Fails(s, o) THEN s
                            ELSE ApplyEntries(IF o.merge THEN s ELSE [h \in Hosts |-> None], o.entries, o.policy)

\* ---- execution, statement by statement ------------------------------------------------
Cur == IF txn.open THEN txn.s ELSE committed
NoTxn == [open |-> FALSE, s |-> Empty]
Txn(st) == [open |-> TRUE, s |-> st]
Init == /\ committed \in Store /\ txn = NoTxn /\ op \in Ops /\ pc = 0
        /\ before = committed /\ outcome = "running"
\* single-statement operations: one write statement, then COMMIT
Write1 == /\ pc = 0 /\ op.kind \in {"trust", "revoke", "revokeName", "revokeNoPort", "clear"}
          /\ txn' = Txn(After(committed, op)) /\ pc' = CommitPc
          /\ UNCHANGED <<committed, op, before, outcome>>
\* import: optional clear, then one entry per step
ImportStart ==
  /\ pc = 0 /\ op.kind = "import"
  /\ IF op.merge THEN txn' = NoTxn /\ UNCHANGED committed
     ELSE IF DevReplaceClearsInOwnTxn
          THEN committed' = Empty /\ txn' = NoTxn        \* clear() + commit on its own connection
          ELSE txn' = Txn(Empty) /\ UNCHANGED committed      \* DELETE inside the import's transaction
  /\ pc' = 1 /\ UNCHANGED <<op, before, outcome>>
Entry ==
  /\ pc \in 1..Len(op.entries)
  /\ LET e == op.entries[pc]
         seen == IF DevExistenceViaSecondConn THEN committed[e.h] ELSE Cur[e.h] IN
     IF ~e.ok THEN                                           \* validation raises ValueError
          /\ txn' = NoTxn /\ pc' = DonePc /\ outcome' = "raised" /\ UNCHANGED committed
     ELSE IF seen = None THEN
          IF Cur[e.h] # None THEN                            \* INSERT hits the primary key: IntegrityError
               /\ txn' = NoTxn /\ pc' = DonePc /\ outcome' = "raised" /\ UNCHANGED committed
          ELSE /\ txn' = Txn([Cur EXCEPT ![e.h] = e.fp]) /\ pc' = pc + 1 /\ UNCHANGED <<committed, outcome>>
     ELSE IF seen = e.fp \/ op.policy = "skip" THEN
          /\ pc' = pc + 1 /\ UNCHANGED <<committed, txn, outcome>>
     ELSE IF op.policy = "raise" THEN                        \* the conflict callback raises
          /\ txn' = NoTxn /\ pc' = DonePc /\ outcome' = "raised" /\ UNCHANGED committed
     ELSE /\ txn' = Txn([Cur EXCEPT ![e.h] = e.fp]) /\ pc' = pc + 1 /\ UNCHANGED <<committed, outcome>>
  /\ UNCHANGED <<op, before>>
ImportEnd == /\ op.kind = "import" /\ pc = Len(op.entries) + 1 /\ pc' = CommitPc
             /\ UNCHANGED <<committed, txn, op, before, outcome>>
Commit == /\ pc = CommitPc /\ committed' = Cur /\ txn' = NoTxn /\ pc' = DonePc /\ outcome' = "ok"
          /\ UNCHANGED <<op, before>>
Crash == /\ pc # DonePc /\ txn' = NoTxn /\ pc' = DonePc /\ outcome' = "crashed"     \* process killed, file reopened
         /\ UNCHANGED <<committed, op, before>>
Next == Write1 \/ ImportStart \/ Entry \/ ImportEnd \/ Commit \/ Crash
Spec == Init /\ [][Next]_vars

\* ---- properties (C12) -----------------------------------------------------------------
\* the store changes at exactly one point - the operation's final COMMIT - or not at all
SingleCommitPoint == [][committed' # committed => pc = CommitPc]_vars
Atomic == outcome # "ok" => committed = before            \* running, raised or crashed: exactly as before
DoneIsAfter == (outcome = "ok" /\ NoDup(op)) => committed = After(before, op)
FailureRaises == (op.kind = "import" /\ Fails(before, op) /\ NoDup(op)) => outcome # "ok"
OthersUntouched == \A h \in Hosts :
   (op.kind \in {"trust", "revoke"} /\ h # op.h) \/
   (op.kind = "revokeName" /\ NameOf(h) # NameOf(op.h)) \/
   (op.kind = "revokeNoPort") \/
   (op.kind = "import" /\ op.merge /\ \A i \in 1..Len(op.entries) : op.entries[i].h # h)
      => committed[h] = before[h]
=============================================================================
