------------------------------ MODULE Assembly ------------------------------
(* `nauyaca serve` (nauyaca/__main__.py): how the settings a server is started with are assembled from a TOML file,
   command-line options and NAUYACA_* environment variables, and handed to start_server.  Beyond the modules of the
   listed properties; its formulas say that the middleware the properties C05 / C09 / C10 speak about is configured
   exactly as the file says, whatever else is overridden.

   Overridable settings (host, port, document root, certificate+key): ENV > CLI > TOML > default.
   Everything else (rate limit, access control, certificate rules) comes from the file only - and must not be lost on
   the way, whichever overrides are present.                                                                         *)
EXTENDS Naturals, FiniteSets, TLC
CONSTANT DevRebuildOnEnv       \* deviation: with any NAUYACA_* variable set the configuration is rebuilt from the overridable fields only
Fields == {"host", "port", "root", "tls"}          \* "tls" = the certificate/key pair, given together
Absent == "-"
\* a source gives a field a value named after the source (so that the winner can be told), or nothing
Src == [Fields -> BOOLEAN]
RateFiles == {Absent, "tight", "off", "frozen"}    \* [rate_limit] absent / capacity 2, refill 0.01, retry 7 / enabled = false /
                                                   \* capacity 3, refill 0.0, retry 0 (zeros are values, not "unset")
AclFiles  == {Absent, "deny", "allowonly", "closed"}     \* absent / deny_list / allow_list / default_allow = false without lists
CertFiles == {Absent, "rules"}                     \* [[certificate_auth.paths]] with two rules, one with a fingerprint list
VARIABLES hasFile, toml, cli, env, rate, acl, certs, reqFlag, out
vars == <<hasFile, toml, cli, env, rate, acl, certs, reqFlag, out>>
Pending == [k |-> "pending"]
Init == /\ hasFile \in BOOLEAN
        /\ toml \in Src /\ cli \in Src /\ env \in Src
        /\ rate \in RateFiles /\ acl \in AclFiles /\ certs \in CertFiles
        /\ reqFlag \in BOOLEAN                              \* --require-client-cert
        /\ (~hasFile => (toml = [f \in Fields |-> FALSE] /\ rate = Absent /\ acl = Absent /\ certs = Absent))
        /\ (hasFile => toml["root"])                        \* a file names its document root
        /\ (~hasFile => (cli["root"] \/ env["root"]))       \* otherwise it is required from the command line or the environment
        /\ out = Pending
Winner(f) == IF env[f] THEN "env" ELSE IF cli[f] THEN "cli" ELSE IF toml[f] THEN "toml" ELSE "default"
Lost == DevRebuildOnEnv /\ \E f \in Fields : env[f]
\* --require-client-cert without certificate rules in a file: the code builds CertificateAuthConfig(require_cert=True), a field
\* that class does not have - start-up fails (observation; it fails closed)
Refused == reqFlag /\ (certs = Absent \/ Lost)
Eval == /\ out = Pending
        /\ out' = [k |-> IF Refused THEN "refused" ELSE "started",
                   from |-> [f \in Fields |-> Winner(f)],
                   rateEnabled |-> (Lost \/ rate # "off"),
                   rate |-> IF rate \in {"tight", "frozen"} /\ ~Lost THEN rate ELSE "default",
                   acl |-> IF Lost THEN Absent ELSE acl,
                   certs |-> IF certs = "rules" /\ ~Lost THEN "rules" ELSE Absent]
        /\ UNCHANGED <<hasFile, toml, cli, env, rate, acl, certs, reqFlag>>
Spec == Init /\ [][Eval]_vars
Done == out.k = "started"
\* ---- properties ----------------------------------------------------------------------------------------------------------
Precedence == Done => \A f \in Fields : out.from[f] = Winner(f)
\* C10: the rate limiter runs with the file's capacity, refill rate and retry hint (or the defaults), whatever is overridden
RateAsConfigured == Done => (out.rateEnabled = (rate # "off") /\ out.rate = (IF rate \in {"tight", "frozen"} THEN rate ELSE "default"))
\* C09: the address policy of the file reaches the server
AclAsConfigured == Done => out.acl = acl
\* C05: the certificate rules of the file reach the server; the command-line flag adds a requirement, it never replaces rules
CertRulesAsConfigured == Done => out.certs = certs
\* the flag is never silently dropped: either every rule of the file is in force or the server does not start
FlagNeverIgnored == (out # Pending /\ reqFlag) => (out.k = "refused" \/ out.certs = "rules")
=============================================================================
