---- MODULE MC_ServerConn ----
(* Model-checking and replay instances of ServerConn. *)
EXTENDS ServerConn
St(ll, crlf, cls, ts, after, cuts) == [lineLen |-> ll, crlf |-> crlf, cls |-> cls, tsize |-> ts, after |-> after, cuts |-> cuts]
\* lineLen = bytes before CRLF; cuts = absolute offsets at which the stream may be split (the last is the total)
MCStreams == {
  St(20, TRUE, "ok", 0, 0, {1, 20, 21, 22}),
  St(20, TRUE, "ok", 0, 5, {10, 21, 22, 25, 27}),
  St(1022, TRUE, "ok", 0, 0, {1000, 1023, 1024}),
  St(1023, TRUE, "ok", 0, 0, {1000, 1024, 1025}),
  \* a maximal (1024-byte) line with further bytes in the same read; a line longer than 1024 BYTES that may be shorter in characters
  St(1022, TRUE, "ok", 0, 3, {1024, 1025, 1027}),
  St(1022, TRUE, "titan", 2, 2, {1024, 1026}),
  St(1100, TRUE, "ok", 0, 0, {1024, 1025, 1101, 1102}),
  St(2000, TRUE, "ok", 0, 0, {1024, 1025, 2001, 2002}),
  St(1500, FALSE, "ok", 0, 0, {1024, 1025, 1500}),
  St(700, FALSE, "ok", 0, 0, {300, 700}),
  St(20, TRUE, "badUtf8", 0, 3, {21, 22, 25}),
  St(20, TRUE, "badUrl", 0, 0, {21, 22}),
  St(30, TRUE, "titan", 0, 4, {31, 32, 36}),
  St(30, TRUE, "titan", 3, 3, {32, 33, 34, 35}),
  St(30, TRUE, "titan", 3, 9, {32, 35, 38, 41}),
  St(30, TRUE, "titan", 3, 2, {32, 34}),
  \* an upload that announces far more than the peer ever sends, and then goes silent
  St(60, TRUE, "titan", 3000000, 38, {62, 100}),
  St(30, TRUE, "titanBad", 0, 3, {32, 35}),
  \* every byte offset is a cut point: all 2^(n-1) segmentations of a short Gemini and a short Titan request
  St(16, TRUE, "ok", 0, 2, 1..20),
  St(24, TRUE, "titan", 4, 6, 1..32) }
MCChains == { <<>>, <<"allow">>, <<"deny53">>, <<"denyNoText">>, <<"denyMalformed">>, <<"raise">>,
              <<"allow", "allow">>, <<"allow", "deny44">>, <<"deny60", "raise">>, <<"allow", "raise", "deny53">> }
Outs == {"ok20", "ok20bytes", "ok20empty", "in10", "ok30", "err51", "cert60",
         "body51", "metaCRLF", "metaLong", "unenc", "status99", "raise", "raiseCRLF"}
MCH == [kind : {"sync", "async"}, out : Outs] \cup {[kind |-> "async", out |-> "never"]}
\* replay instance: every stream and chain with a few handler behaviours ...
RPH1 == [kind : {"sync", "async"}, out : {"ok20", "err51", "raise"}] \cup {[kind |-> "async", out |-> "never"]}
\* ... and every handler behaviour with a few streams and chains
RPStreams2 == { St(20, TRUE, "ok", 0, 5, {10, 21, 22, 25, 27}), St(30, TRUE, "titan", 3, 9, {32, 35, 38, 41}) }
RPChains2 == { <<>>, <<"allow">> }
====
