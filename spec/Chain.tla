---------------------------- MODULE Chain ----------------------------
(* The middleware chain as the real start_server assembles it from a configuration file
   (server/server.py): CertificateAuth first, then AccessControl, then RateLimiter, in front of the static handler.
   The three components are the decision rules of CertAuth / Acl / RateLimit, composed in order with the
   short-circuit of MiddlewareChain: the first refusal is the answer, later components are not consulted - in
   particular a request refused by the certificate rules or the address policy does not consume a rate-limit token.
   Beyond the listed properties' own modules this covers the *assembly*: component order, which of them exist for a
   configuration, and that they see the peer address and certificate of the connection.

   Addresses, certificates and paths are small constant sets; time is in ticks as in RateLimit.            *)
EXTENDS Integers, Sequences, FiniteSets, TLC
CONSTANTS IPs,              \* peer addresses
          Denied,           \* subset of IPs refused by the address policy
          Certs,            \* client certificates (a request carries one of them or "none")
          Allowed,          \* certificates on the allow-list of the protected prefix
          Paths,            \* request paths: "pub" (no rule), "prot" (require_cert + allow-list), "any" (require_cert only), "missing" (no such file)
          Cap, R, D,        \* bucket capacity, refill R/D tokens per tick
          Steps, MaxTime, MaxReq,
          DevRateFirst      \* deviation: the rate limiter is consulted before the other two (tokens burnt by refused requests)
VARIABLES now, bucket, nreq, last
vars == <<now, bucket, nreq, last>>
Min(a, b) == IF a < b THEN a ELSE b
Level(b, t) == IF b.present THEN Min(Cap * D, b.tok + (t - b.last) * R) ELSE Cap * D
Absent == [present |-> FALSE, tok |-> 0, last |-> 0]
CertDecision(path, cert) ==
  CASE path = "pub" -> "ok" [] path = "missing" -> "ok"
    [] path = "any" -> IF cert = "none" THEN "60" ELSE "ok"
    [] path = "prot" -> IF cert = "none" THEN "60" ELSE IF cert \notin Allowed THEN "61" ELSE "ok"
AclDecision(ip) == IF ip \in Denied THEN "53" ELSE "ok"
Served(path) == IF path = "missing" THEN "51" ELSE "20"
Init == now = 0 /\ bucket = [i \in IPs |-> Absent] /\ nreq = 0
        /\ last = [ip |-> "-", path |-> "-", cert |-> "-", status |-> "-", consumed |-> FALSE]
Advance(d) == /\ now + d <= MaxTime /\ now' = now + d /\ UNCHANGED <<bucket, nreq, last>>
Request(ip, path, cert) ==
  /\ nreq < MaxReq /\ nreq' = nreq + 1 /\ UNCHANGED now
  /\ LET cd == CertDecision(path, cert)  ad == AclDecision(ip)
         lv == Level(bucket[ip], now)
         early == cd # "ok" \/ ad # "ok"
         consult == IF DevRateFirst THEN TRUE ELSE ~early       \* is the rate limiter consulted at all?
         has == lv >= D IN
     /\ bucket' = IF consult
                    THEN [bucket EXCEPT ![ip] = [present |-> TRUE, tok |-> IF has THEN lv - D ELSE lv, last |-> now]]
                    ELSE bucket
     /\ last' = [ip |-> ip, path |-> path, cert |-> cert, consumed |-> (consult /\ has),
                 status |-> IF DevRateFirst /\ ~has THEN "44"
                            ELSE IF cd # "ok" THEN cd ELSE IF ad # "ok" THEN ad
                            ELSE IF ~has THEN "44" ELSE Served(path)]
Next == (\E d \in Steps : Advance(d)) \/ (\E i \in IPs, p \in Paths, c \in Certs \cup {"none"} : Request(i, p, c))
Spec == Init /\ [][Next]_vars
\* ---- properties ----
Called == last.status # "-"
\* the first refusing component's answer is what the client gets, in the order certificate rules, address policy, rate limit
FirstRefusalWins == Called =>
   last.status = (IF CertDecision(last.path, last.cert) # "ok" THEN CertDecision(last.path, last.cert)
                  ELSE IF AclDecision(last.ip) # "ok" THEN "53"
                  ELSE IF last.consumed THEN Served(last.path) ELSE "44")
\* a request refused by an earlier component never consumes allowance
RefusedDoNotConsume == (Called /\ last.status \in {"60", "61", "53"}) => ~last.consumed
\* content is served only to requests every component admits
ServedOnlyIfAllAdmit == (Called /\ last.status \in {"20", "51"}) =>
   (CertDecision(last.path, last.cert) = "ok" /\ AclDecision(last.ip) = "ok" /\ last.consumed)
=============================================================================
