SPECIFICATION Spec
CONSTANTS
  AsBuiltOverridesUnvalidated = FALSE
  AsBuiltFlagYieldsToRules = FALSE
  AsBuiltRequireFlagCrashes = FALSE
  AsBuiltHashFlagShadowsFile = FALSE
  DevCliBeatsEnv = FALSE
  DevFileSecurityDropped = FALSE
INVARIANT Precedence
INVARIANT SecurityInForce
INVARIANT HashOnUnlessAsked
INVARIANT StartedOnlyValid
INVARIANT RequireFlagInForce
INVARIANT HashAsWritten
INVARIANT FlagDoesNotRefuse
CHECK_DEADLOCK FALSE
