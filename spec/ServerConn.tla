---------------------------- MODULE ServerConn ----------------------------
(* One server connection of nauyaca: GeminiServerProtocol (server/protocol.py) as a state
   machine, one action per asyncio callback:

     Data(p)          data_received      - the transport (or the PyOpenSSL pump) hands over the
                                           client's bytes up to absolute offset p
     MwStep           one component of the MiddlewareChain returns / raises; when the chain's task
                      is finished the protocol's done-callback runs in the same step
     HandlerComplete  done-callback of the request-handler / upload-handler task
     TimerFire        _handle_timeout
     PeerDisconnect   connection_lost while the server had not closed (FIN, RST, EOF)
     ConnectionLost   the loop's connection_lost(None) after transport.close()

   Properties: C01 (one well-formed response, then close), C04 (no handler behind a refusing
   chain), C07 (outcome independent of segmentation, handlers at most once), C08 (wire part:
   which lines are refused with 59/50), C15 (request timer).

   The client's byte stream is a constant record (line length, terminator, class, declared
   Titan size, bytes after the line, cut points); lengths are the real numbers.            *)
EXTENDS Naturals, Sequences, FiniteSets, TLC

CONSTANTS MaxReq,            \* 1024
          Streams,           \* set of client stream records
          Chains,            \* set of middleware chains: Seq of component outcomes
          HOutcomes,         \* set of handler behaviours [kind, out]
          Uploads,           \* subset of BOOLEAN: is an upload handler installed
          DataAfterClose,    \* BOOLEAN: the PyOpenSSL pump may deliver plaintext after the inner close
          \* deviations (behaviour of the tree before the fix: commits; all FALSE = the design)
          DevNoDispatchedFlag, DevTitanSkipsChain, DevSilentDeny, DevRawResponse,
          DevVerbatimRefusal      \* deviation (tree before its fix): whatever text a refusing component hands back is written as it is

VARIABLES cfg,        \* [s: stream, mw: chain, h: handler behaviour, hasUpload]  chosen once
          delivered,  \* bytes handed to data_received so far
          lineSeen,   \* url_line_received
          awaiting,   \* awaiting_titan_content
          pending,    \* "none" | "mw" | "mwT" | "handler" | "upload"
          mwIdx,      \* components of the chain that have answered "allow" so far
          timer,      \* "armed" | "off" | "fired"
          tp,         \* "open" | "closing" | "lost"      (transport)
          wire,       \* what the client received: Seq of [st, body, metaOK]
          torn,       \* a header was written and the connection was then aborted (half-written response)
          calls,      \* [h |-> Nat, u |-> Nat, mw |-> Nat]   invocations of handler / upload handler / chain components
          peerGone,   \* peer disconnected before the server closed
          complete    \* a complete request has been received (history)
vars == <<cfg, delivered, lineSeen, awaiting, pending, mwIdx, timer, tp, wire, torn, calls, peerGone, complete>>

S == cfg.s
Total(s) == s.lineLen + (IF s.crlf THEN 2 ELSE 0) + s.after
CrlfIn(s, p) == s.crlf /\ p >= s.lineLen + 2
Buffered(s, p) == IF CrlfIn(s, p) THEN p - (s.lineLen + 2) ELSE 0     \* bytes after the line
IsTitan(s) == s.cls \in {"titan", "titanBad"}

R(st) == [st |-> st, body |-> FALSE, metaOK |-> TRUE]

\* ---- what a handler behaviour puts on the wire (design) ------------------------------------
\* status classes; "body51" = non-2x value carrying a body (must be dropped); "metaCRLF"/"metaLong"
\* = meta that would break the header (must be neutralised); "unenc" = body that cannot be encoded
\* (must become a single 40, never a header followed by an abort); "status99" = status outside 10..69;
\* "raise" = exception (any type, any message).
HValue(o) == CASE o = "ok20"     -> [st |-> 20, body |-> TRUE,  metaOK |-> TRUE]
               [] o = "ok20bytes"-> [st |-> 20, body |-> TRUE,  metaOK |-> TRUE]
               [] o = "ok20empty"-> [st |-> 20, body |-> FALSE, metaOK |-> TRUE]
               [] o = "in10"     -> R(10)
               [] o = "ok30"     -> R(30)
               [] o = "err51"    -> R(51)
               [] o = "cert60"   -> R(60)
               [] o = "body51"   -> IF DevRawResponse THEN [st |-> 51, body |-> TRUE, metaOK |-> TRUE] ELSE R(51)
               [] o = "metaCRLF" -> [st |-> 20, body |-> TRUE, metaOK |-> ~DevRawResponse]
               [] o = "metaLong" -> [st |-> 20, body |-> TRUE, metaOK |-> ~DevRawResponse]
               [] o = "unenc"    -> IF DevRawResponse THEN [st |-> 20, body |-> FALSE, metaOK |-> TRUE] ELSE R(40)
               [] o = "status99" -> IF DevRawResponse THEN R(99) ELSE R(40)
               [] o = "raise"    -> R(40)
               [] o = "raiseCRLF"-> [st |-> 40, body |-> FALSE, metaOK |-> ~DevRawResponse]
               [] OTHER          -> R(40)
Tears(o) == DevRawResponse /\ o = "unenc"       \* header written, then UnicodeEncodeError escapes the callback

\* ---- writing to the client ------------------------------------------------------------------
\* _send_response: header(+body) then close; nothing reaches a peer that is gone or already closed
Respond(r) ==
  /\ wire' = IF tp = "open" THEN Append(wire, r) ELSE wire
  /\ tp' = IF tp = "lost" THEN "lost" ELSE "closing"
  /\ UNCHANGED torn
RespondH(o) ==
  /\ wire' = IF tp = "open" THEN Append(wire, HValue(o)) ELSE wire
  /\ tp' = IF tp = "lost" THEN "lost" ELSE "closing"
  /\ torn' = (torn \/ (Tears(o) /\ tp = "open"))
CancelTimer == timer' = IF timer = "armed" THEN "off" ELSE timer

\* _route_request
Route ==
  /\ calls' = [calls EXCEPT !.h = @ + 1]
  /\ IF cfg.h.kind = "sync"
       THEN RespondH(cfg.h.out) /\ pending' = "none"
       ELSE pending' = "handler" /\ UNCHANGED <<wire, tp, torn>>

DispatchUpload ==
  /\ calls' = [calls EXCEPT !.u = @ + 1]
  /\ pending' = "upload"
  /\ UNCHANGED <<wire, tp, torn>>

\* the request is complete: through the chain, or straight on when there is none
StartChain(kind) ==      \* kind = "mw" (Gemini) | "mwT" (Titan)
  /\ pending' = kind /\ UNCHANGED <<wire, tp, torn, calls>>
TitanReady ==
  IF cfg.mw # <<>> /\ ~DevTitanSkipsChain THEN StartChain("mwT") ELSE DispatchUpload

\* ---- data_received ----------------------------------------------------------------------------
Data(p) ==
  /\ p \in S.cuts /\ p > delivered
  /\ tp # "lost" /\ (tp = "open" \/ DataAfterClose)
  /\ delivered' = p
  /\ UNCHANGED <<cfg, peerGone, mwIdx>>
  /\ IF ~lineSeen THEN
       IF p > MaxReq /\ ~CrlfIn(S, p) THEN                      \* too long, no CRLF yet
            /\ Respond(R(59))
            /\ UNCHANGED <<lineSeen, awaiting, pending, timer, calls>> /\ complete' = TRUE
       ELSE IF CrlfIn(S, p) THEN
            IF S.lineLen + 2 > MaxReq THEN
                 /\ Respond(R(59))
                 /\ UNCHANGED <<lineSeen, awaiting, pending, timer, calls>> /\ complete' = TRUE
            ELSE /\ lineSeen' = TRUE
                 /\ IF S.cls = "badUtf8" THEN
                        /\ Respond(R(59))
                        /\ UNCHANGED <<awaiting, pending, timer, calls>> /\ complete' = TRUE
                    ELSE IF IsTitan(S) THEN
                        IF ~cfg.hasUpload THEN
                            /\ Respond(R(50))
                            /\ UNCHANGED <<awaiting, pending, timer, calls>> /\ complete' = TRUE
                        ELSE IF S.cls = "titanBad" THEN
                            /\ Respond(R(59))
                            /\ UNCHANGED <<awaiting, pending, timer, calls>> /\ complete' = TRUE
                        ELSE IF S.tsize = 0 THEN
                            /\ CancelTimer /\ TitanReady /\ UNCHANGED awaiting /\ complete' = TRUE
                        ELSE /\ awaiting' = TRUE
                             /\ IF Buffered(S, p) >= S.tsize
                                  THEN CancelTimer /\ TitanReady /\ complete' = TRUE
                                  ELSE UNCHANGED <<pending, timer, wire, tp, torn, calls, complete>>
                    ELSE \* Gemini
                        /\ CancelTimer /\ UNCHANGED awaiting /\ complete' = TRUE
                        /\ IF S.cls = "badUrl" THEN
                               Respond(R(59)) /\ UNCHANGED <<pending, calls>>
                           ELSE IF cfg.mw # <<>> THEN StartChain("mw")
                           ELSE Route
       ELSE UNCHANGED <<lineSeen, awaiting, pending, timer, tp, wire, torn, calls, complete>>
     ELSE IF awaiting /\ Buffered(S, p) >= S.tsize
                   /\ (DevNoDispatchedFlag \/ ~complete) THEN
            /\ CancelTimer /\ TitanReady /\ complete' = TRUE
            /\ UNCHANGED <<lineSeen, awaiting>>
     ELSE UNCHANGED <<lineSeen, awaiting, pending, timer, tp, wire, torn, calls, complete>>

\* ---- the middleware chain's task ------------------------------------------------------------------
\* component mwIdx+1 answers; MiddlewareChain returns the first rejection, an exception fails the task
MwStep ==
  /\ pending \in {"mw", "mwT"}
  /\ mwIdx < Len(cfg.mw)
  /\ UNCHANGED <<cfg, delivered, lineSeen, awaiting, timer, peerGone, complete>>
  /\ LET o == cfg.mw[mwIdx + 1]
         counted == [calls EXCEPT !.mw = @ + 1] IN
     CASE o = "allow" ->
            /\ mwIdx' = mwIdx + 1
            /\ IF mwIdx + 1 = Len(cfg.mw)
                 THEN IF pending = "mw"
                        THEN /\ calls' = [counted EXCEPT !.h = @ + 1]
                             /\ IF cfg.h.kind = "sync"
                                  THEN RespondH(cfg.h.out) /\ pending' = "none"
                                  ELSE pending' = "handler" /\ UNCHANGED <<wire, tp, torn>>
                        ELSE /\ calls' = [counted EXCEPT !.u = @ + 1]
                             /\ pending' = "upload" /\ UNCHANGED <<wire, tp, torn>>
                 ELSE calls' = counted /\ UNCHANGED <<pending, wire, tp, torn>>
       [] o \in {"deny53", "deny44", "deny60"} ->
            /\ Respond(R(CASE o = "deny53" -> 53 [] o = "deny44" -> 44 [] OTHER -> 60))
            /\ pending' = "none" /\ calls' = counted /\ UNCHANGED mwIdx
       [] o = "denyNoText" ->
            /\ pending' = "none" /\ calls' = counted /\ UNCHANGED mwIdx
            /\ IF DevSilentDeny THEN UNCHANGED <<wire, tp, torn>> ELSE Respond(R(40))
       [] o = "denyMalformed" ->     \* a refusal whose text is not a response header (no status, status 99, two lines, no CRLF, 3000 bytes):
                                     \* the component refused - the client gets a well-formed refusal, not that text
            /\ pending' = "none" /\ calls' = counted /\ UNCHANGED mwIdx
            /\ Respond(IF DevVerbatimRefusal THEN [st |-> 99, body |-> FALSE, metaOK |-> FALSE] ELSE R(40))
       [] o = "raise" ->
            /\ Respond(R(40)) /\ pending' = "none" /\ calls' = counted /\ UNCHANGED mwIdx

HandlerComplete ==
  /\ pending \in {"handler", "upload"}
  /\ cfg.h.out # "never"
  /\ RespondH(cfg.h.out)
  /\ pending' = "none"
  /\ UNCHANGED <<cfg, delivered, lineSeen, awaiting, mwIdx, timer, calls, peerGone, complete>>

\* ---- timer, disconnect --------------------------------------------------------------------------
TimerFire ==
  /\ timer = "armed"
  /\ timer' = "fired"
  /\ IF tp = "open" THEN Respond(R(40)) ELSE UNCHANGED <<wire, tp, torn>>
  /\ UNCHANGED <<cfg, delivered, lineSeen, awaiting, pending, mwIdx, calls, peerGone, complete>>

PeerDisconnect ==        \* connection_lost(exc) while the server had not closed
  /\ tp = "open"
  /\ tp' = "lost" /\ peerGone' = TRUE /\ CancelTimer
  /\ UNCHANGED <<cfg, delivered, lineSeen, awaiting, pending, mwIdx, wire, torn, calls, complete>>

ConnectionLost ==        \* the loop's connection_lost(None) after transport.close()
  /\ tp = "closing"
  /\ tp' = "lost" /\ CancelTimer
  /\ UNCHANGED <<cfg, delivered, lineSeen, awaiting, pending, mwIdx, wire, torn, calls, peerGone, complete>>

Init ==
  /\ cfg \in [s : Streams, mw : Chains, h : HOutcomes, hasUpload : Uploads]
  /\ delivered = 0 /\ lineSeen = FALSE /\ awaiting = FALSE /\ pending = "none" /\ mwIdx = 0
  /\ timer = "armed" /\ tp = "open" /\ wire = <<>> /\ torn = FALSE
  /\ calls = [h |-> 0, u |-> 0, mw |-> 0]
  /\ peerGone = FALSE /\ complete = FALSE

AllCuts == UNION {s.cuts : s \in Streams}
Next == (\E p \in AllCuts : Data(p)) \/ MwStep \/ HandlerComplete \/ TimerFire
          \/ PeerDisconnect \/ ConnectionLost

Spec == Init /\ [][Next]_vars /\ WF_vars(MwStep) /\ WF_vars(HandlerComplete)
             /\ WF_vars(TimerFire) /\ WF_vars(ConnectionLost)

\* ---- reference: the outcome as a function of the whole stream (no cut points) ------------------
RECURSIVE ChainVerdict(_, _)
ChainVerdict(ch, i) ==      \* "allow" or the wire item of the first refusing component
  IF i > Len(ch) THEN [allow |-> TRUE, r |-> R(0), upto |-> Len(ch)]
  ELSE CASE ch[i] = "allow"  -> ChainVerdict(ch, i + 1)
         [] ch[i] = "deny53" -> [allow |-> FALSE, r |-> R(53), upto |-> i]
         [] ch[i] = "deny44" -> [allow |-> FALSE, r |-> R(44), upto |-> i]
         [] ch[i] = "deny60" -> [allow |-> FALSE, r |-> R(60), upto |-> i]
         [] OTHER            -> [allow |-> FALSE, r |-> R(40), upto |-> i]     \* no text, or raised
\* [resp: <<item>> or <<>> (nothing until the timer), h, u: handler / upload invocations]
NoCall(r) == [resp |-> <<r>>, h |-> 0, u |-> 0]
Expected(c) ==
  LET s == c.s  v == ChainVerdict(c.mw, 1) IN
  IF ~s.crlf THEN (IF Total(s) > MaxReq THEN NoCall(R(59)) ELSE [resp |-> <<>>, h |-> 0, u |-> 0])
  ELSE IF s.lineLen + 2 > MaxReq THEN NoCall(R(59))
  ELSE IF s.cls = "badUtf8" THEN NoCall(R(59))
  ELSE IF IsTitan(s) THEN
       IF ~c.hasUpload THEN NoCall(R(50))
       ELSE IF s.cls = "titanBad" THEN NoCall(R(59))
       ELSE IF s.after < s.tsize THEN [resp |-> <<>>, h |-> 0, u |-> 0]
       ELSE IF ~v.allow THEN NoCall(v.r)
       ELSE [resp |-> <<HValue(c.h.out)>>, h |-> 0, u |-> 1]
  ELSE IF s.cls = "badUrl" THEN NoCall(R(59))
  ELSE IF ~v.allow THEN NoCall(v.r)
  ELSE [resp |-> <<HValue(c.h.out)>>, h |-> 1, u |-> 0]

\* ---- properties -------------------------------------------------------------------------------------
OneResponse == Len(wire) <= 1                                                    \* C01
WellFormed  == \A i \in 1..Len(wire) :                                           \* C01
                 /\ wire[i].st \in 10..69 /\ wire[i].metaOK
                 /\ (wire[i].body => wire[i].st \in 20..29)
NeverTorn   == ~torn                                                             \* C01: no half-written response
ThenClosed  == wire # <<>> => tp # "open"                                        \* C01: response, then close
ChainAllowed == ChainVerdict(cfg.mw, 1).allow
GateC04     == (calls.h + calls.u > 0) => (ChainAllowed /\ mwIdx = Len(cfg.mw))  \* C04
NoneBeyondRefusal == calls.mw <= ChainVerdict(cfg.mw, 1).upto                    \* C04: nobody consulted after the first refusal
\* a component that refuses with a response: that response; one that raises (or refuses without a text): a refusal - which
\* 4x/5x/6x status the server picks for it is not the property's business
FirstRejectionWins ==                                                            \* C04
  (~ChainAllowed /\ Len(wire) = 1 /\ timer # "fired" /\ pending = "none" /\ calls.mw > 0)
      => LET v == ChainVerdict(cfg.mw, 1) IN
         IF cfg.mw[v.upto] \in {"deny53", "deny44", "deny60"} THEN wire[1] = v.r
         ELSE wire[1].st \in 40..69 /\ ~wire[1].body
AtMostOnce  == calls.h + calls.u <= 1                                            \* C07
\* C15: once a complete request has been received the timer can no longer produce a response or a close
TimeoutHarmless == [][(timer = "armed" /\ timer' = "fired" /\ complete) => (wire' = wire /\ tp' = tp)]_vars
\* C04: in particular the timer never pre-empts a refusal: the first rejecting component's response is what the client receives
RefusalNotPreempted == [][(timer = "armed" /\ timer' = "fired" /\ complete /\ ~ChainAllowed) => (wire' = wire /\ tp' = tp)]_vars
\* C15: a silent peer is always answered 40 and closed when the timer fires
TimeoutAnswers == [][(timer = "armed" /\ timer' = "fired" /\ ~complete /\ tp = "open")
                        => (Len(wire') = 1 /\ wire'[1].st = 40 /\ tp' = "closing")]_vars
TimerWhileWaiting == (tp = "open" /\ ~complete) => timer = "armed"               \* C15
\* quiescent: nothing internal can happen any more
Quiescent == pending = "none" /\ timer # "armed" /\ tp # "closing"
AnsweredWhenQuiet ==                                                              \* C01 (safety form)
  (Quiescent /\ ~peerGone /\ (complete \/ timer = "fired")) => (Len(wire) = 1 /\ tp = "lost")
Answered == [](complete /\ cfg.h.out # "never" => <>(peerGone \/ Len(wire) = 1)) \* C01 (liveness form)
\* C07: the outcome is a function of the bytes sent, never of the cut points
SegIndep == (Quiescent /\ ~peerGone /\ timer # "fired" /\ complete /\ delivered = Total(S))
              => /\ wire = Expected(cfg).resp
                 /\ calls.h = Expected(cfg).h /\ calls.u = Expected(cfg).u
\* C01/C07: once every byte of a complete request has been delivered the server is answering it -
\* it never sits idle waiting for more (which would make the outcome depend on how the bytes were split)
Progress == (delivered = Total(S) /\ Expected(cfg).resp # <<>> /\ ~peerGone)
               => ~(tp = "open" /\ pending = "none" /\ wire = <<>>)
\* C07/C08: a handler is only ever invoked for a line that is acceptable
OnlyValidReachHandler == (calls.h + calls.u > 0) =>
     /\ S.crlf /\ S.lineLen + 2 <= MaxReq /\ S.cls \in {"ok", "titan"}
     /\ (calls.u > 0 => cfg.hasUpload /\ S.cls = "titan" /\ S.after >= S.tsize)
TypeOK == /\ pending \in {"none", "mw", "mwT", "handler", "upload"}
          /\ timer \in {"armed", "off", "fired"} /\ tp \in {"open", "closing", "lost"}
          /\ mwIdx \in 0..Len(cfg.mw)
=============================================================================
