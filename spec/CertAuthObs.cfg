INIT OInit
NEXT ONext
CONSTANTS
  MaxSegs = 0
  SegAlphabet = {}
  RuleLists = {}
  Certs = {"c1", "c2"}
  DevMatchRawPath = FALSE
  DevEmptyListMeansNoList = FALSE
  DevClimbAndReturn = FALSE
  DevIndexNotJudged = FALSE
CONSTRAINT Report
CHECK_DEADLOCK FALSE
