------------------------------ MODULE PollWatch ------------------------------
(* The polling file watcher of the hot-reload feature (nauyaca/server/reload/watcher.py: PollingWatcher) with the extension
   filter of ReloadConfig.should_watch_file.  Beyond the listed properties.
   A file is a name with an mtime (0 = absent).  The watcher remembers the watched files' mtimes of its last scan; a scan
   reports exactly the watched files whose state differs from the remembered one (new, modified, deleted), remembers the
   new state, and wait_for_changes() returns at the first scan that reports anything.                                  *)
EXTENDS Naturals, FiniteSets, TLC
CONSTANTS Files,        \* all file names of the tree
          Watched,      \* those whose extension is watched (decided by the real should_watch_file in the replay)
          MaxM,         \* mtimes 1..MaxM
          MaxEv         \* environment events
VARIABLES fs,           \* name -> mtime or 0
          known,        \* the watcher's memory (watched names only; 0 = not seen)
          reported,     \* what the last scan reported
          returned,     \* wait_for_changes() has returned (and is called again by the next Scan)
          nev
vars == <<fs, known, reported, returned, nev>>
Snapshot(f) == [x \in Files |-> IF x \in Watched THEN f[x] ELSE 0]
Init == /\ fs \in [Files -> 0..1] /\ known = Snapshot(fs)       \* the constructor scans
        /\ reported = {} /\ returned = FALSE /\ nev = 0
Env(x, m) == /\ nev < MaxEv /\ m # fs[x] /\ fs' = [fs EXCEPT ![x] = m] /\ nev' = nev + 1
             /\ UNCHANGED <<known, reported, returned>>
Changed == {x \in Watched : fs[x] # known[x]}
Scan == /\ reported' = Changed /\ known' = Snapshot(fs) /\ returned' = (Changed # {})
        /\ UNCHANGED <<fs, nev>>
Next == (\E x \in Files, m \in 0..MaxM : Env(x, m)) \/ Scan
Spec == Init /\ [][Next]_vars
\* ---- properties ---------------------------------------------------------------------------------------------------------
OnlyWatched == reported \subseteq Watched                          \* other extensions never trigger a reload
MemoryExact == \A x \in Files : x \notin Watched => known[x] = 0
\* a scan that follows a scan with no event in between reports nothing (no restart loop)
Quiescent == [][(reported' # reported \/ known' # known) /\ fs' = fs /\ known = Snapshot(fs) => reported' = {}]_vars
\* nothing is lost: whatever differs from the watcher's memory is reported by the very next scan, and then remembered
NothingLost == [][(fs' = fs /\ nev' = nev) => (reported' = {x \in Watched : fs[x] # known[x]} /\ known' = Snapshot(fs))]_vars
ReturnsIffChanged == returned <=> reported # {}
=============================================================================
