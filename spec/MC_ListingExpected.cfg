SPECIFICATION Spec
CONSTANTS
  AsBuiltVerbatimNames = FALSE
  DevParentLinkWrong = FALSE
INVARIANT OrdinaryNamesLead
INVARIANT ParentLinkLeads
INVARIANT LinksLead
INVARIANT OneLinePerEntry
INVARIANT NoForeignLinks
CHECK_DEADLOCK FALSE
