------------------------------- MODULE Reload -------------------------------
(* The hot-reload supervisor (nauyaca/server/reload/supervisor.py): one parent process that spawns the server as a child,
   blocks in the file watcher, and on a change terminates the child (SIGTERM, 10 s, then SIGKILL), pauses and spawns a new
   one; SIGINT / SIGTERM to the parent run a handler that stops the child and raises KeyboardInterrupt into whatever the
   main flow was doing.  Beyond the listed properties: an extension of the specification suite.

   Control is a stack of frames, because the signal handler runs ON TOP of the interrupted code and its KeyboardInterrupt
   unwinds it.  One action per call the supervisor makes into the outside world (Popen, poll, terminate, wait, kill, the
   watcher, sleep) - those are the points at which the replay's fakes are entered and at which a signal can be injected -
   plus named internal steps.  Children are environment: a graceful child exits some time after SIGTERM, a stubborn one only
   on SIGKILL, and any child may crash on its own.                                                                        *)
EXTENDS Naturals, Sequences, FiniteSets, TLC
CONSTANTS MaxSpawn,            \* children ever spawned
          MaxSig,              \* signals delivered to the supervisor
          MaxCrash,            \* spontaneous child exits
          SpawnGap             \* TRUE: a signal may arrive inside Popen(), after the child exists and before self.process is assigned
VARIABLES stack,               \* Seq of [fn: "run"|"stop"|"handler", pc: STRING]
          proc,                \* self.process: child id or 0 (None)
          alive,               \* children running
          kind,                \* child id -> "graceful" | "stubborn" | "none"
          nspawn, nsig, ncrash,
          shouldStop,
          termSent, killSent,  \* children that were sent SIGTERM / SIGKILL
          timedOut,            \* children whose 10 s grace period expired in a wait()
          result,              \* "running" | "returned" | "raised"
          pendingKI,           \* a KeyboardInterrupt is propagating
          last                 \* the last outside call: <<name, child>> (observation)
vars == <<stack, proc, alive, kind, nspawn, nsig, ncrash, shouldStop, termSent, killSent, timedOut, result, pendingKI, last>>
Ids == 1..MaxSpawn
Top == stack[Len(stack)]
Fr(f, p) == [fn |-> f, pc |-> p]
SetTop(p) == stack' = [stack EXCEPT ![Len(stack)] = Fr(Top.fn, p)]
Push(f, p, ret) == stack' = Append([stack EXCEPT ![Len(stack)] = Fr(Top.fn, ret)], Fr(f, p))
Pop == stack' = SubSeq(stack, 1, Len(stack) - 1)
Running == result = "running" /\ stack # <<>> /\ ~pendingKI
At(f, p) == Running /\ Top.fn = f /\ Top.pc = p
CallPoints == {"popen", "watch", "sleep", "poll", "term", "wait", "kill", "wait2"}
Init == /\ stack = <<Fr("run", "loop")>> /\ proc = 0 /\ alive = {} /\ kind = [i \in Ids |-> "none"]
        /\ nspawn = 0 /\ nsig = 0 /\ ncrash = 0 /\ shouldStop = FALSE /\ termSent = {} /\ killSent = {} /\ timedOut = {}
        /\ result = "running" /\ pendingKI = FALSE /\ last = <<"none", 0>>
U(v) == UNCHANGED v
\* ---- run() -------------------------------------------------------------------------------------------------------
RunLoop == /\ At("run", "loop") /\ SetTop(IF shouldStop THEN "final" ELSE "popen")
           /\ U(<<proc, alive, kind, nspawn, nsig, ncrash, shouldStop, termSent, killSent, timedOut, result, pendingKI, last>>)
Spawn(k) == /\ At("run", "popen") /\ ~SpawnGap /\ nspawn < MaxSpawn
            /\ nspawn' = nspawn + 1 /\ alive' = alive \cup {nspawn + 1} /\ kind' = [kind EXCEPT ![nspawn + 1] = k]
            /\ proc' = nspawn + 1 /\ last' = <<"popen", nspawn + 1>>
            /\ SetTop(IF shouldStop THEN "final" ELSE "watch")
            /\ U(<<nsig, ncrash, shouldStop, termSent, killSent, timedOut, result, pendingKI>>)
SpawnBegin(k) == /\ At("run", "popen") /\ SpawnGap /\ nspawn < MaxSpawn
                 /\ nspawn' = nspawn + 1 /\ alive' = alive \cup {nspawn + 1} /\ kind' = [kind EXCEPT ![nspawn + 1] = k]
                 /\ last' = <<"popen", nspawn + 1>> /\ SetTop("popen_in")
                 /\ U(<<proc, nsig, ncrash, shouldStop, termSent, killSent, timedOut, result, pendingKI>>)
SpawnEnd == /\ At("run", "popen_in") /\ proc' = nspawn /\ SetTop(IF shouldStop THEN "final" ELSE "watch")
            /\ U(<<alive, kind, nspawn, nsig, ncrash, shouldStop, termSent, killSent, timedOut, result, pendingKI, last>>)
Watch == \* wait_for_changes() returns a non-empty list
         /\ At("run", "watch") /\ last' = <<"watch", 0>>
         /\ IF shouldStop THEN SetTop("final") ELSE Push("stop", "s0", "sleep")
         /\ U(<<proc, alive, kind, nspawn, nsig, ncrash, shouldStop, termSent, killSent, timedOut, result, pendingKI>>)
Sleep == /\ At("run", "sleep") /\ last' = <<"sleep", 0>> /\ SetTop("loop")
         /\ U(<<proc, alive, kind, nspawn, nsig, ncrash, shouldStop, termSent, killSent, timedOut, result, pendingKI>>)
Final == \* finally: self._stop_server()
         /\ At("run", "final") /\ Push("stop", "s0", "end")
         /\ U(<<proc, alive, kind, nspawn, nsig, ncrash, shouldStop, termSent, killSent, timedOut, result, pendingKI, last>>)
RunEnd == /\ At("run", "end") /\ result' = "returned" /\ stack' = <<>>
          /\ U(<<proc, alive, kind, nspawn, nsig, ncrash, shouldStop, termSent, killSent, timedOut, pendingKI, last>>)
\* ---- _stop_server() ------------------------------------------------------------------------------------------------
StopNone == /\ At("stop", "s0")
            /\ IF proc = 0 THEN Pop ELSE SetTop("poll")
            /\ U(<<proc, alive, kind, nspawn, nsig, ncrash, shouldStop, termSent, killSent, timedOut, result, pendingKI, last>>)
Poll == /\ At("stop", "poll") /\ last' = <<"poll", proc>>
        /\ IF proc \notin alive THEN proc' = 0 /\ Pop ELSE U(proc) /\ SetTop("term")
        /\ U(<<alive, kind, nspawn, nsig, ncrash, shouldStop, termSent, killSent, timedOut, result, pendingKI>>)
Term == /\ At("stop", "term") /\ last' = <<"term", proc>> /\ termSent' = termSent \cup {proc} /\ SetTop("wait")
        /\ U(<<proc, alive, kind, nspawn, nsig, ncrash, shouldStop, killSent, timedOut, result, pendingKI>>)
WaitReaped == /\ At("stop", "wait") /\ proc \notin alive /\ last' = <<"wait", proc>> /\ SetTop("fin")
              /\ U(<<proc, alive, kind, nspawn, nsig, ncrash, shouldStop, termSent, killSent, timedOut, result, pendingKI>>)
WaitTimeout == \* only a child that ignores SIGTERM outlives the grace period
              /\ At("stop", "wait") /\ proc \in alive /\ kind[proc] = "stubborn" /\ last' = <<"wait", proc>>
              /\ timedOut' = timedOut \cup {proc} /\ SetTop("kill")
              /\ U(<<proc, alive, kind, nspawn, nsig, ncrash, shouldStop, termSent, killSent, result, pendingKI>>)
Kill == /\ At("stop", "kill") /\ last' = <<"kill", proc>> /\ killSent' = killSent \cup {proc} /\ alive' = alive \ {proc}
        /\ SetTop("wait2")
        /\ U(<<proc, kind, nspawn, nsig, ncrash, shouldStop, termSent, timedOut, result, pendingKI>>)
Wait2 == /\ At("stop", "wait2") /\ last' = <<"wait2", proc>> /\ SetTop("fin")
         /\ U(<<proc, alive, kind, nspawn, nsig, ncrash, shouldStop, termSent, killSent, timedOut, result, pendingKI>>)
StopFin == /\ At("stop", "fin") /\ proc' = 0 /\ Pop
           /\ U(<<alive, kind, nspawn, nsig, ncrash, shouldStop, termSent, killSent, timedOut, result, pendingKI, last>>)
\* ---- children (environment) -------------------------------------------------------------------------------------------
ChildExits(c) == \* a graceful child obeys SIGTERM
   /\ result = "running" /\ c \in alive /\ c \in termSent /\ kind[c] = "graceful" /\ alive' = alive \ {c}
   /\ U(<<stack, proc, kind, nspawn, nsig, ncrash, shouldStop, termSent, killSent, timedOut, result, pendingKI, last>>)
ChildCrashes(c) ==
   /\ result = "running" /\ c \in alive /\ ncrash < MaxCrash /\ ncrash' = ncrash + 1 /\ alive' = alive \ {c}
   /\ U(<<stack, proc, kind, nspawn, nsig, shouldStop, termSent, killSent, timedOut, result, pendingKI, last>>)
\* ---- signals ------------------------------------------------------------------------------------------------------------
Signal == \* delivered while the top frame is inside (or about to enter) an outside call
   /\ Running /\ nsig < MaxSig /\ Top.pc \in (CallPoints \cup {"popen_in"})
   /\ nsig' = nsig + 1 /\ shouldStop' = TRUE
   /\ stack' = Append(Append(stack, Fr("handler", "h1")), Fr("stop", "s0"))
   /\ U(<<proc, alive, kind, nspawn, ncrash, termSent, killSent, timedOut, result, pendingKI, last>>)
Raise == /\ At("handler", "h1") /\ pendingKI' = TRUE
         /\ U(<<stack, proc, alive, kind, nspawn, nsig, ncrash, shouldStop, termSent, killSent, timedOut, result, last>>)
InTry(p) == p \in {"term", "wait", "kill", "wait2", "fin"}
Unwind == \* the exception leaves one frame
   /\ result = "running" /\ pendingKI /\ stack # <<>>
   /\ CASE Top.fn = "handler" -> Pop /\ U(<<proc, pendingKI, result>>)
        [] Top.fn = "stop"    -> Pop /\ proc' = (IF InTry(Top.pc) THEN 0 ELSE proc) /\ U(<<pendingKI, result>>)
        [] Top.fn = "run"     -> IF Top.pc = "end"     \* raised inside the finally clause's _stop_server(): leaves run()
                                   THEN stack' = <<>> /\ result' = "raised" /\ pendingKI' = FALSE /\ U(proc)
                                   ELSE SetTop("final") /\ pendingKI' = FALSE /\ U(<<proc, result>>)
   /\ U(<<alive, kind, nspawn, nsig, ncrash, shouldStop, termSent, killSent, timedOut, last>>)
Next == \/ RunLoop \/ (\E k \in {"graceful", "stubborn"} : Spawn(k) \/ SpawnBegin(k)) \/ SpawnEnd \/ Watch \/ Sleep \/ Final \/ RunEnd
        \/ StopNone \/ Poll \/ Term \/ WaitReaped \/ WaitTimeout \/ Kill \/ Wait2 \/ StopFin
        \/ (\E c \in Ids : ChildExits(c) \/ ChildCrashes(c)) \/ Signal \/ Raise \/ Unwind
Fair == /\ WF_vars(RunLoop \/ SpawnEnd \/ Final \/ RunEnd \/ StopNone \/ Poll \/ Term \/ WaitReaped \/ WaitTimeout \/ Kill \/ Wait2 \/ StopFin \/ Raise \/ Unwind \/ Sleep)
        /\ \A c \in Ids : WF_vars(ChildExits(c))
        /\ WF_vars(\E k \in {"graceful", "stubborn"} : Spawn(k) \/ SpawnBegin(k))
Spec == Init /\ [][Next]_vars /\ Fair
\* ---- properties --------------------------------------------------------------------------------------------------------
TypeOK == /\ proc \in 0..MaxSpawn /\ alive \subseteq Ids /\ result \in {"running", "returned", "raised"}
AtMostOneChild == Cardinality(alive) <= 1                      \* the port is free before the next server is started
NoOrphanAtExit == result # "running" => alive = {}             \* Ctrl-C never leaves a server behind
KnownChild == proc # 0 => proc = nspawn                        \* self.process is the newest child or None
InGap == \E i \in 1..Len(stack) : stack[i].pc = "popen_in"
TracksLive == (result = "running" /\ ~InGap) => alive \subseteq {proc}   \* every running child is the one the supervisor holds
KillOnlyAfterGrace == killSent \subseteq (termSent \cap timedOut)   \* SIGKILL only after SIGTERM and the full grace period
NoSpawnAfterSignal == [][nspawn' # nspawn => ~shouldStop]_vars
\* once a signal has been handled the supervisor ends (it never goes back to watching)
SignalEnds == (nsig > 0) ~> (result # "running")
\* a change seen by the watcher is answered by a fresh server unless a signal intervenes or the spawn budget is used up
Restarts == \A n \in 0..(MaxSpawn - 1) : (last = <<"watch", 0>> /\ ~shouldStop /\ nspawn = n) ~> (nspawn > n \/ shouldStop)
=============================================================================
