-------------------------- MODULE RateLimitTrace --------------------------
(* Trace validation for RateLimit: recorded runs of the real RateLimiter (virtual clock, its own
   _cleanup_loop task running) must be behaviours of RateLimit, with the logged decision and the logged
   bucket levels equal to the specification's.
     trace = [par |-> [cap, r, d], steps |-> << [a |-> "Advance", d |-> 25], [a |-> "Request", ip |-> "a", ok |-> TRUE,
               lv |-> [a |-> 512, b |-> 1024]], [a |-> "Cleanup", lv |-> ...], ... >>]                              *)
EXTENDS RateLimit, Json, IOUtils, TLCExt
Traces == JsonDeserialize(IOEnv.TRACE_FILE)
VARIABLES tid, l
tvars == <<vars, tid, l>>
T == Traces[tid]
Steps_ == T.steps
Ev == Steps_[l]
TInit == tid \in 1..Len(Traces) /\ l = 1 /\ InitWith(Traces[tid].par)
IsEvent(e) == l <= Len(Steps_) /\ Ev.a = e /\ l' = l + 1 /\ UNCHANGED tid
Levels == [i \in IPs |-> Level(bucket[i], now)]
LvOf(o) == [i \in IPs |-> IF i = "a" THEN o.a ELSE IF i = "b" THEN o.b ELSE o.c]
TNext == \/ IsEvent("Advance") /\ Advance(Ev.d)
         \/ IsEvent("Request") /\ Request(Ev.ip) /\ lastDec'.real = Ev.ok /\ (Ev.haslv => Levels' = LvOf(Ev.lv))
         \/ IsEvent("Cleanup") /\ Cleanup /\ Levels' = LvOf(Ev.lv)
Flags == << CleanupInvisible, SameDecision, Window >>
Report == PrintT(<<"REACHED", tid, l, Len(Steps_) + 1, Flags>>)
=============================================================================
