SPECIFICATION Spec
CONSTANTS
  Hosts = {"h1", "h2", "h3"}
  Fps = {"f1", "f2"}
  Ops <- MCOps
  DevReplaceClearsInOwnTxn = FALSE
  DevExistenceViaSecondConn = FALSE
INVARIANT Atomic
INVARIANT DoneIsAfter
INVARIANT FailureRaises
INVARIANT OthersUntouched
PROPERTY SingleCommitPoint
CHECK_DEADLOCK FALSE
