------------------------------ MODULE LogPrivacy ------------------------------
(* What the server's log says about who connected (nauyaca/utils/logging.py hash_ip_processor, configured by
   configure_logging and fed by every logger call of server/protocol.py).  Extension beyond the listed properties: with
   address hashing on (the default) no line of the log contains a client's address - whatever the connection did.

   One log event is abstracted to where the address occurs in it: under the key the processor knows (`client_ip`),
   under another key, or inside the text of a value (an exception message quoting the peer).  The processor chain is
   modelled as built: it replaces the value under `client_ip` by a truncated SHA-256 and touches nothing else.  So the
   invariant below is a statement about the CALL SITES - each must hand the address over under that key and nowhere
   else - and the binding is what decides it: every event the real protocol object logs, over the behaviours of
   ServerConn.tla, rendered by the real pipeline.                                                                         *)
EXTENDS Naturals, TLC
CONSTANTS DevOtherKey,      \* deviation: a call site passes the address under a key of its own (`peer=`)
          DevInText         \* deviation: a call site quotes the address inside a message
Sites == {"connection", "request", "refused", "timeout", "error", "closed"}     \* kinds of log events of a connection
VARIABLES hashing,          \* configure_logging(hash_ips=...)
          format,           \* "console" | "json"
          site, line
vars == <<hashing, format, site, line>>
None == [k |-> "none"]
Init == hashing \in BOOLEAN /\ format \in {"console", "json"} /\ site \in Sites /\ line = None
Event(s) == [underKey |-> TRUE, otherKey |-> DevOtherKey /\ s = "error", inText |-> DevInText /\ s = "refused"]
Render == /\ line = None
          /\ LET e == Event(site) IN
             line' = [k |-> "line",
                      showsAddress |-> (e.underKey /\ ~hashing) \/ e.otherKey \/ e.inText,
                      showsHash |-> e.underKey /\ hashing]
          /\ UNCHANGED <<hashing, format, site>>
Spec == Init /\ [][Render]_vars
\* with hashing on, no line shows the address; the hash stands in for it (abuse can still be correlated)
NoAddressWhenHashing == (line.k = "line" /\ hashing) => (~line.showsAddress /\ line.showsHash)
\* with hashing off the operator gets what was asked for
AddressWhenAsked == (line.k = "line" /\ ~hashing) => line.showsAddress
=============================================================================
