---------------------------- MODULE UploadObs ----------------------------
(* Observation specification for C14: (upload tree, Titan request, storage fault, what the real FileUploadHandler -
   reached through the real protocol - answered, and what changed on disk according to a recursive before/after
   snapshot taken by the driver).  Handle is evaluated by TLC for comparison; the C14 formulas are evaluated on the
   observation itself.
     case = [L: [k, to], path, size, token, mime, deleteOn, fault, ok, kind, at, ghost]                       *)
EXTENDS Upload, Json, IOUtils, TLCExt
Cases == JsonDeserialize(IOEnv.TRACE_FILE)
VARIABLES tid, l
C == Cases[tid]
OInit == /\ tid \in 1..Len(Cases) /\ l = 1
         /\ slot = [s \in Slots |-> IF s = "L" THEN Cases[tid].L ELSE Cases[tid].M]
         /\ req = [path |-> Cases[tid].path, size |-> Cases[tid].size, token |-> Cases[tid].token, mime |-> Cases[tid].mime,
                   deleteOn |-> Cases[tid].deleteOn, fault |-> Cases[tid].fault]
         /\ out = R(FALSE, [kind |-> "pending", at |-> "-", ghost |-> 0])
ONext == /\ l = 1 /\ l' = 2 /\ UNCHANGED <<tid, slot, req>>
         /\ out' = R(C.ok, [kind |-> C.kind, at |-> C.at, ghost |-> C.ghost])
Agrees == LET m == Handle IN
          /\ out.ok = m.ok /\ out.change.kind = m.change.kind
          /\ (m.change.kind # "none" => (out.change.at = m.change.at /\ out.change.ghost = m.change.ghost))
Flags == IF l = 1 THEN <<TRUE, TRUE, TRUE, TRUE, TRUE>>
         ELSE <<OnlyInside, Authorised, NonSuccessLeavesTreeUnchanged, SuccessChangesExactlyTarget, Agrees>>
Report == PrintT(<<"REACHED", tid, l, 2, Flags>>)
=============================================================================
