INIT TInit
NEXT TNext
CONSTANTS
  Scripts = {}
  Eps = {"get", "upload"}
  Cap = 10485760
  Tofu = {"off", "first", "match", "changed", "unreadable"}
  DevSendInConnectionMade = FALSE
  DevLookupErrorEscapes = FALSE
  DevNonSuccessAtClose = FALSE
  DevUnreadableSkipsCheck = FALSE
CONSTRAINT Report
CHECK_DEADLOCK FALSE
