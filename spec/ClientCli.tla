------------------------------ MODULE ClientCli ------------------------------
(* `nauyaca get` (nauyaca/__main__.py): what the command-line options turn into - the GeminiClient it constructs and the
   fetch it asks for.  Part of C03 / C11 (trust-on-first-use is on unless the user turns it off: no other option disables it)
   and C16 (the redirect bound and the follow switch reach the client as given).                                            *)
EXTENDS Naturals, TLC
CONSTANTS DevVerifyDisablesTofu,     \* deviation: --verify-ssl switches trust-on-first-use off
          DevSchemePrefixed,         \* deviation: "gemini://" is put in front of any URL that does not start with exactly that
          DevMarkupInterpreted       \* deviation: the answer's meta is printed through the console's markup language
UrlKinds == {"lower", "upperScheme", "mixedScheme", "upperHost", "port", "defaultPort", "v6", "noPath", "query", "reserved"}
Redirects == {"0", "1", "5", "7"}         \* --max-redirects, as written on the command line ("5" is the default)
VARIABLES trustFlag,      \* "default" | "--trust" | "--no-trust"
          verifyFlag,     \* "default" | "--verify-ssl" | "--no-verify-ssl"
          maxFlag,        \* "default" or a number
          noRedirects, timeoutFlag,
          urlKind,        \* how the URL on the command line is spelled (all of these the library accepts)
          answer,         \* what the client hands back: "content" (a 2x) or a 3x whose target is "plain" text, contains square
                          \* brackets that read as console markup ("markup": filter[name]=x) or as a stray closing tag ("closing": a[/]b)
          out
vars == <<trustFlag, verifyFlag, maxFlag, noRedirects, timeoutFlag, urlKind, answer, out>>
Answers == {"content", "plain", "markup", "closing"}
Pending == [k |-> "pending"]
Init == /\ trustFlag \in {"default", "--trust", "--no-trust"} /\ verifyFlag \in {"default", "--verify-ssl", "--no-verify-ssl"}
        /\ maxFlag \in {"default"} \cup Redirects /\ noRedirects \in BOOLEAN /\ timeoutFlag \in {"default", "7.5"}
        /\ urlKind \in UrlKinds
        \* the spelling of the URL and the options do not interact: spellings are swept with default options
        /\ (urlKind # "lower" => (trustFlag = "default" /\ verifyFlag = "default" /\ maxFlag = "default" /\ ~noRedirects /\ timeoutFlag = "default"))
        /\ answer \in Answers
        \* a 3x comes back to the command only when following is off; shown with default options otherwise
        /\ (answer # "content" => (noRedirects /\ urlKind = "lower" /\ trustFlag = "default" /\ verifyFlag = "default" /\ maxFlag = "default" /\ timeoutFlag = "default"))
        /\ out = Pending
Eval == /\ out = Pending
        /\ out' = [k |-> "called",
                   tofu |-> (trustFlag # "--no-trust") /\ ~(DevVerifyDisablesTofu /\ verifyFlag = "--verify-ssl"),
                   verify |-> verifyFlag = "--verify-ssl",
                   max |-> IF maxFlag = "default" THEN "5" ELSE maxFlag,
                   follow |-> ~noRedirects,
                   \* the URL the client is asked to fetch denotes what the user typed
                   url |-> IF DevSchemePrefixed /\ urlKind \in {"upperScheme", "mixedScheme"} THEN "other" ELSE "same",
                   timeout |-> IF timeoutFlag = "default" THEN "30.0" ELSE timeoutFlag,
                   \* what the user is shown of a 3x that was not followed: its target, character for character
                   shown |-> IF answer = "content" THEN "n/a"
                             ELSE IF DevMarkupInterpreted /\ answer = "markup" THEN "altered"
                             ELSE IF DevMarkupInterpreted /\ answer = "closing" THEN "crashed" ELSE "verbatim"]
        /\ UNCHANGED <<trustFlag, verifyFlag, maxFlag, noRedirects, timeoutFlag, urlKind, answer>>
Spec == Init /\ [][Eval]_vars
Done == out.k = "called"
\* C03 / C11: the pin check is in force unless --no-trust was given - whatever else is on the command line
TofuAsRequested == Done => (out.tofu = (trustFlag # "--no-trust"))
\* C16: the bound and the switch are the user's
RedirectsAsRequested == Done => (out.max = (IF maxFlag = "default" THEN "5" ELSE maxFlag) /\ out.follow = ~noRedirects)
\* C19: the command hands the library the URL it was given (same host, port, path and query), however it is spelled
UrlAsGiven == Done => out.url = "same"
\* C16: with following off the 3x answer reaches the user unchanged
ShownUnchanged == Done => out.shown \in {"n/a", "verbatim"}
VerifyAsRequested == Done => (out.verify = (verifyFlag = "--verify-ssl"))
=============================================================================
