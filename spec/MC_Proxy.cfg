SPECIFICATION Spec
CONSTANTS
  PathTokens = {"api", "key", "v2", "x"}
  MaxLen = 6
  Prefixes <- MCPrefixes
  Queries = {"", "q"}
  Scripts = {}
  Cap = 10485760
  DevStripAnywhere = FALSE
  DevFollowRedirect = FALSE
  DevRelayBadMeta = FALSE
INVARIANT FaithfulMap
INVARIANT StartsWithSlash
CHECK_DEADLOCK FALSE
