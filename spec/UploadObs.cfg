INIT OInit
NEXT ONext
CONSTANTS
  MaxSegs = 0
  DevTruncateInPlace = FALSE
  DevLoopLexical = FALSE
  LoopInstance = FALSE
CONSTRAINT Report
CHECK_DEADLOCK FALSE
