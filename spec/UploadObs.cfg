INIT OInit
NEXT ONext
CONSTANTS
  MaxSegs = 0
  DevTruncateInPlace = FALSE
CONSTRAINT Report
CHECK_DEADLOCK FALSE
