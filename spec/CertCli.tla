------------------------------ MODULE CertCli ------------------------------
(* `nauyaca cert generate NAME [-o DIR] [--force]` (nauyaca/__main__.py + security/certificates.py): extension beyond the
   listed properties.  The command owns two files, DIR/NAME.pem and DIR/NAME.key.  What is there before is abstracted to
   absent / an older pair's file / a directory in the way; the outcome is what is there afterwards.

     NoClobber     without --force nothing that exists is replaced or removed (and the command says so: it fails)
     PairOrNothing after a successful run both files exist, belong together (the key is the certificate's key), the
                   certificate names NAME, and the key file is private to its owner (mode 0600)
     FailureIsQuiet a refused run changes neither file                                                                  *)
EXTENDS Naturals, TLC
CONSTANT DevForceOnlyCert      \* deviation: the existence check looks at the certificate file only
Pre == {"absent", "old"}
VARIABLES cert, key, force,
          nameOK,    \* FALSE: NAME has non-ASCII characters - it cannot go into the certificate's DNS name as it is, and
                     \* generation fails (observation: the command refuses instead of encoding it); nothing is written
          out
vars == <<cert, key, force, nameOK, out>>
Pending == [k |-> "pending"]
Init == cert \in Pre /\ key \in Pre /\ force \in BOOLEAN /\ nameOK \in BOOLEAN /\ out = Pending
Blocked == ~nameOK \/ (~force /\ (cert = "old" \/ (key = "old" /\ ~DevForceOnlyCert)))
Eval == /\ out = Pending
        /\ out' = IF Blocked THEN [k |-> "refused", cert |-> cert, key |-> key, pair |-> FALSE, private |-> FALSE]
                  ELSE [k |-> "generated", cert |-> "new", key |-> "new", pair |-> TRUE, private |-> TRUE]
        /\ UNCHANGED <<cert, key, force, nameOK>>
Spec == Init /\ [][Eval]_vars
Done == out.k # "pending"
NoClobber == (Done /\ ~force) => ((cert = "old" => out.cert = "old") /\ (key = "old" => out.key = "old"))
PairOrNothing == (Done /\ out.k = "generated") => (out.cert = "new" /\ out.key = "new" /\ out.pair /\ out.private)
FailureIsQuiet == (Done /\ out.k = "refused") => (out.cert = cert /\ out.key = key)
=============================================================================
