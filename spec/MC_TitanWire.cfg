SPECIFICATION Spec
CONSTANTS
  DevUnescaped = FALSE
INVARIANT RoundTrip
INVARIANT ContentNeverMangled
INVARIANT RefusesOnlyOddSchemes
CHECK_DEADLOCK FALSE
