SPECIFICATION Spec
CONSTANTS
  DevClientEscapes = FALSE
INVARIANT RoundTrip
INVARIANT ContentNeverMangled
INVARIANT RefusesOnlyOddSchemes
CHECK_DEADLOCK FALSE
