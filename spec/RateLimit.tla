---------------------------- MODULE RateLimit ----------------------------
(* Token-bucket rate limiter of nauyaca (middleware.TokenBucket + RateLimiter + _cleanup_loop).
   Time in grid ticks (1 tick = 4 s, so that 300 s / 600 s are 75 / 150 ticks); tokens in units of
   1/par.d so all arithmetic is exact (the replay uses dyadic rates, for which the implementation's
   floats are exact too).  One action per call / wake-up:
     Advance(d)   virtual time passes (never across a clean-up wake-up)
     Request(i)   RateLimiter.process_request for address i: lazy refill, min(capacity, .), consume
     Cleanup      the _cleanup_loop wakes up (every CleanEvery) and evicts idle buckets
   Ghost state: ref (the same buckets with no eviction at all), admits (admission times).        *)
EXTENDS Integers, Sequences, FiniteSets, TLC
CONSTANTS IPs,
          Params,                \* set of [cap, r, d]: capacity, refill = r/d tokens per tick
          Steps,                 \* allowed time advances (ticks)
          CleanEvery, IdleAge,   \* 75, 150 ticks  (300 s, 600 s)
          MaxTime, MaxReq,
          CleanupFirst,          \* TRUE: a clean-up wake-up precedes every request of the same instant (virtual-time replay);
                                 \* FALSE: a request may be handled between the timer firing and the clean-up task resuming
          EvictRegardless        \* deviation: evict idle buckets whatever their level (tree before the fix)
VARIABLES par, now, nextClean, bucket, ref, admits, nreq, lastDec
vars == <<par, now, nextClean, bucket, ref, admits, nreq, lastDec>>
Cap == par.cap
R == par.r
D == par.d
Absent == [present |-> FALSE, tok |-> 0, last |-> 0]
Min(a, b) == IF a < b THEN a ELSE b
Level(b, t) == IF b.present THEN Min(Cap * D, b.tok + (t - b.last) * R) ELSE Cap * D   \* tokens (x D) available at time t
Consume(b, t) == LET lv == Level(b, t) IN
   IF lv >= D THEN [ok |-> TRUE,  b |-> [present |-> TRUE, tok |-> lv - D, last |-> t]]
              ELSE [ok |-> FALSE, b |-> [present |-> TRUE, tok |-> lv,     last |-> t]]
InitWith(p) == /\ par = p /\ now = 0 /\ nextClean = CleanEvery
               /\ bucket = [i \in IPs |-> Absent] /\ ref = [i \in IPs |-> Absent]
               /\ admits = [i \in IPs |-> <<>>] /\ nreq = 0 /\ lastDec = [ip |-> "-", real |-> TRUE, ref |-> TRUE]
Init == \E p \in Params : InitWith(p)
\* the clean-up task wakes before anything else that happens at the same instant
Advance(d) == /\ now < nextClean /\ now + d <= nextClean /\ now + d <= MaxTime /\ now' = now + d
              /\ UNCHANGED <<par, nextClean, bucket, ref, admits, nreq, lastDec>>
Request(i) == /\ (CleanupFirst => now < nextClean) /\ nreq < MaxReq /\ nreq' = nreq + 1
              /\ LET c == Consume(bucket[i], now)  cr == Consume(ref[i], now) IN
                   /\ bucket' = [bucket EXCEPT ![i] = c.b] /\ ref' = [ref EXCEPT ![i] = cr.b]
                   /\ admits' = [admits EXCEPT ![i] = IF c.ok THEN Append(@, now) ELSE @]
                   /\ lastDec' = [ip |-> i, real |-> c.ok, ref |-> cr.ok]
              /\ UNCHANGED <<par, now, nextClean>>
Cleanup == /\ now = nextClean /\ nextClean' = nextClean + CleanEvery
           /\ bucket' = [i \in IPs |->
                 IF bucket[i].present /\ now - bucket[i].last > IdleAge
                    /\ (EvictRegardless \/ Level(bucket[i], now) = Cap * D)
                 THEN Absent ELSE bucket[i]]
           /\ UNCHANGED <<par, now, ref, admits, nreq, lastDec>>
Next == (\E d \in Steps : Advance(d)) \/ (\E i \in IPs : Request(i)) \/ Cleanup
Spec == Init /\ [][Next]_vars
\* ---- properties (C10) ----
\* clean-up never hands an address more allowance than it would have had without it
CleanupInvisible == \A i \in IPs : Level(bucket[i], now) <= Level(ref[i], now)
\* a refusal only when the allowance (without any clean-up) is exhausted; an admission only when it is not
SameDecision == lastDec.real = lastDec.ref
\* admitted in any window [a_j, a_k] never exceeds Cap + rate * length   (scaled by D)
Window == \A i \in IPs : \A j, k \in 1..Len(admits[i]) :
            j <= k => (k - j + 1) * D <= Cap * D + R * (admits[i][k] - admits[i][j])
\* traffic from one address never alters another address's bucket
Isolation == [][\A i \in IPs : (nreq' = nreq + 1 /\ lastDec'.ip # i) => bucket'[i] = bucket[i]]_vars
TypeOK == /\ now \in 0..MaxTime /\ \A i \in IPs : bucket[i].tok \in 0..(Cap * D)
=============================================================================
