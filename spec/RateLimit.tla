---------------------------- MODULE RateLimit ----------------------------
(* Token-bucket rate limiter of nauyaca (TokenBucket + RateLimiter + _cleanup_loop).
   Time in grid ticks (1 tick = 4 s); tokens in units of 1/D so all arithmetic is exact. *)
EXTENDS Integers, Sequences, FiniteSets, TLC
CONSTANTS IPs, Cap, R, D,        \* refill = R/D tokens per tick
          Steps,                 \* allowed time advances (ticks)
          CleanEvery, IdleAge,   \* 75, 150 ticks  (300 s, 600 s)
          MaxTime, MaxReq,
          EvictRegardless        \* deviation: current code evicts idle buckets whatever their level
VARIABLES now, nextClean, bucket, ref, admits, nreq, lastDec
vars == <<now, nextClean, bucket, ref, admits, nreq, lastDec>>
Absent == [present |-> FALSE, tok |-> 0, last |-> 0]
Min(a, b) == IF a < b THEN a ELSE b
Level(b, t) == IF b.present THEN Min(Cap * D, b.tok + (t - b.last) * R) ELSE Cap * D   \* tokens available at time t
Consume(b, t) == LET lv == Level(b, t) IN
   IF lv >= D THEN [ok |-> TRUE,  b |-> [present |-> TRUE, tok |-> lv - D, last |-> t]]
              ELSE [ok |-> FALSE, b |-> [present |-> TRUE, tok |-> lv,     last |-> t]]
Init == now = 0 /\ nextClean = CleanEvery /\ bucket = [i \in IPs |-> Absent] /\ ref = [i \in IPs |-> Absent]
        /\ admits = [i \in IPs |-> <<>>] /\ nreq = 0 /\ lastDec = [real |-> TRUE, ref |-> TRUE]
Advance(d) == /\ now + d <= nextClean /\ now + d <= MaxTime /\ now' = now + d
              /\ UNCHANGED <<nextClean, bucket, ref, admits, nreq, lastDec>>
Request(i) == /\ nreq < MaxReq /\ nreq' = nreq + 1
              /\ LET c == Consume(bucket[i], now)  cr == Consume(ref[i], now) IN
                   /\ bucket' = [bucket EXCEPT ![i] = c.b] /\ ref' = [ref EXCEPT ![i] = cr.b]
                   /\ admits' = [admits EXCEPT ![i] = IF c.ok THEN Append(@, now) ELSE @]
                   /\ lastDec' = [real |-> c.ok, ref |-> cr.ok]
              /\ UNCHANGED <<now, nextClean>>
Cleanup == /\ now = nextClean /\ nextClean' = nextClean + CleanEvery
           /\ bucket' = [i \in IPs |->
                 IF bucket[i].present /\ now - bucket[i].last > IdleAge
                    /\ (EvictRegardless \/ Level(bucket[i], now) = Cap * D)
                 THEN Absent ELSE bucket[i]]
           /\ UNCHANGED <<now, ref, admits, nreq, lastDec>>
Next == (\E d \in Steps : Advance(d)) \/ (\E i \in IPs : Request(i)) \/ Cleanup
Spec == Init /\ [][Next]_vars
\* ---- properties (C10) ----
CleanupInvisible == \A i \in IPs : Level(bucket[i], now) <= Level(ref[i], now)
SameDecision == lastDec.real = lastDec.ref
\* admitted in any window [a_j, a_k] never exceeds Cap + rate * length   (scaled by D)
Window == \A i \in IPs : \A j, k \in 1..Len(admits[i]) :
            j <= k => (k - j + 1) * D <= Cap * D + R * (admits[i][k] - admits[i][j])
Isolation == [][\A i \in IPs : (\E j \in IPs : j # i /\ nreq' = nreq + 1 /\ bucket'[j] # bucket[j]) => bucket'[i] = bucket[i]]_vars
=============================================================================
