---- MODULE MC_Proxy ----
EXTENDS Proxy
MCPrefixes == { <<"/">>, <<"/", "api">>, <<"/", "api", "/">>, <<"/", "api", "/", "v2">>, <<"/", "api", "/", "v2", "/">>, <<"/", "key">> }
====
