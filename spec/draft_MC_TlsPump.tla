---- MODULE MC ----
EXTENDS TlsPump
I(k, n) == [k |-> k, plen |-> n]
MCClient == { <<I("hs",0), I("hs",0), I("app",22)>>,
              <<I("hs",0), I("hs",0), I("app",22), I("app",20000), I("app",100)>>,
              <<I("hs",0), I("hs",0), I("app",10), I("app",12), I("close",0)>>,
              <<I("hs",0)>>, <<I("hs",0), I("hs",0)>>, <<>>,
              <<I("junk",0)>>, <<I("hs",0), I("junk",0)>> }
MCReplies == { [after |-> 22, writes |-> ws] : ws \in { <<29>>, <<29, 5>>, <<29, 16384>>, <<29, 16385>>, <<29, 40000>>, <<29, 1000000>> } }
====
