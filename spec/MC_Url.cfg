SPECIFICATION Spec
INVARIANT Idempotent
INVARIANT MeaningPreserved
INVARIANT NormalizedWellformed
INVARIANT NeverAcceptsBad
CHECK_DEADLOCK FALSE
