---------------------------- MODULE Proxy ----------------------------
(* The reverse proxy (server/proxy.py ProxyHandler behind the router and the server protocol).

   Part 1 - URL mapping (C17).  A request path is a sequence of tokens in which "/" is itself a token, so that
   *string* prefix (what str.startswith sees) and *segment* prefix (what the property states) are both expressible.
   Map is written like ProxyHandler._handle_async; RefMap is the property's statement on segments.  TLC enumerates
   (location prefix, strip flag, request path, query) and checks that they agree and that the target host never
   depends on the request.

   Part 2 - relaying (C18).  The upstream is a script (as in ClientConn): header class, status, meta class, body,
   how it ends.  Relay(s) is what the downstream client must receive: the upstream's status, meta and body bytes
   unchanged, or 43.                                                                                        *)
EXTENDS Naturals, Sequences, FiniteSets, TLC
CONSTANTS PathTokens,        \* tokens other than "/" a path may contain
          MaxLen,            \* request paths have at most this many tokens (the leading "/" included)
          Prefixes,          \* location prefixes (token sequences starting with "/")
          Queries,           \* query strings ("" = none)
          Scripts,           \* upstream scripts for part 2
          Cap,               \* MAX_RESPONSE_BODY_SIZE
          DevStripAnywhere,  \* deviation: strip on string prefix without the boundary test
          DevFollowRedirect, \* deviation: the proxy follows upstream redirects
          DevRelayBadMeta    \* deviation: a header that is not a single line of <= 1024 bytes is relayed
Tok == PathTokens \cup {"/"}
Paths == UNION { { <<"/">> \o p : p \in [1..n -> Tok] } : n \in 0..(MaxLen - 1) }
VARIABLES mode, prefix, strip, path, query, sc, out
vars == <<mode, prefix, strip, path, query, sc, out>>

\* ---- part 1: mapping -------------------------------------------------------------------------------------
StartsWith(s, p) == Len(p) <= Len(s) /\ SubSeq(s, 1, Len(p)) = p
Rest(s, p) == SubSeq(s, Len(p) + 1, Len(s))
\* ProxyHandler._handle_async: string prefix + boundary test, leading slash restored
Map ==
  IF strip /\ StartsWith(path, prefix) THEN
       LET rem == Rest(path, prefix)
           valid == DevStripAnywhere \/ prefix[Len(prefix)] = "/" \/ rem = <<>> \/ Head(rem) = "/" IN
       IF valid THEN (IF rem # <<>> /\ Head(rem) = "/" THEN rem ELSE <<"/">> \o rem) ELSE path
  ELSE path
\* the property's statement, on segments: split at "/" tokens (a token sequence is a list of segments)
RECURSIVE Segs(_, _, _)
Segs(s, cur, acc) == IF s = <<>> THEN Append(acc, cur)
                     ELSE IF Head(s) = "/" THEN Segs(Tail(s), <<>>, Append(acc, cur))
                     ELSE Segs(Tail(s), Append(cur, Head(s)), acc)
SegList(s) == Tail(Segs(s, <<>>, <<>>))          \* segments after the leading "/" ("/a/b" -> <<a>>, <<b>>; "/" -> <<>> one empty)
RECURSIVE Join(_)
Join(segs) == IF segs = <<>> THEN <<>> ELSE <<"/">> \o Head(segs) \o Join(Tail(segs))
\* prefix matches on a segment boundary: its complete segments are the first segments of the path
PrefixSegs == LET ps == SegList(prefix) IN IF ps[Len(ps)] = <<>> THEN SubSeq(ps, 1, Len(ps) - 1) ELSE ps
SegPrefix == LET ps == PrefixSegs  s == SegList(path) IN
             Len(ps) <= Len(s) /\ SubSeq(s, 1, Len(ps)) = ps
RefMap == IF strip /\ SegPrefix
            THEN LET r == SubSeq(SegList(path), Len(PrefixSegs) + 1, Len(SegList(path))) IN
                 IF r = <<>> THEN <<"/">> ELSE Join(r)
            ELSE path

\* ---- part 2: relaying -------------------------------------------------------------------------------------
Relay(s) ==      \* [k: "relay" | "43", status, body: bytes relayed]
  LET e43 == [k |-> "43", status |-> 43, body |-> 0] IN
  IF s.connect # "ok" THEN e43                                           \* refused / TLS failure / connect timeout
  ELSE IF ~s.crlf \/ s.sendLen < s.hdrLen + 2 THEN e43                   \* no complete header: close, reset or stall before it
  ELSE IF s.hdrCls # "ok" THEN e43                                       \* non-digit status / invalid UTF-8 header
  ELSE IF s.status \notin 10..69 THEN e43
  ELSE IF s.metaCls # "ok" /\ ~DevRelayBadMeta THEN e43                  \* bare LF / CR in meta, or meta > 1024 bytes
  ELSE IF s.status \notin 20..29 THEN
       IF s.status \in 30..39 /\ DevFollowRedirect THEN [k |-> "followed", status |-> 20, body |-> 0]
       ELSE [k |-> "relay", status |-> s.status, body |-> 0]              \* 1x / 3x / 4x / 5x / 6x: header only, at once
  ELSE IF s.sendLen - (s.hdrLen + 2) > Cap THEN e43                      \* oversized
  ELSE IF s.ends = "never" THEN e43                                      \* stalls: 43 at the location's timeout
  ELSE IF s.ends = "rst" THEN e43                                        \* reset mid-body
  ELSE [k |-> "relay", status |-> s.status, body |-> s.sendLen - (s.hdrLen + 2)]

NilR == [k |-> "-", status |-> 0, body |-> 0]
Nil == [k |-> "none", p |-> <<>>, r |-> NilR]
Init == \/ /\ mode = "map" /\ prefix \in Prefixes /\ strip \in BOOLEAN /\ path \in Paths /\ query \in Queries
           /\ sc = [none |-> TRUE] /\ out = Nil
        \/ /\ mode = "relay" /\ sc \in Scripts /\ prefix = <<"/">> /\ strip = FALSE /\ path = <<"/">> /\ query = ""
           /\ out = Nil
Eval == /\ out.k = "none"
        /\ out' = [k |-> mode, p |-> (IF mode = "map" THEN Map ELSE <<>>), r |-> (IF mode = "relay" THEN Relay(sc) ELSE NilR)]
        /\ UNCHANGED <<mode, prefix, strip, path, query, sc>>
Spec == Init /\ [][Eval]_vars
\* ---- properties ----
\* the router hands a request to this location only when its path starts with the prefix (string prefix);
\* an empty segment right after the prefix ("/api//x" under "/api/") is left undecided (grey)
Routable == StartsWith(path, prefix)
Grey == StartsWith(path, prefix) /\ Rest(path, prefix) # <<>> /\ Head(Rest(path, prefix)) = "/" /\ prefix[Len(prefix)] = "/"
FaithfulMap == (mode = "map" /\ Routable /\ ~Grey) => Map = RefMap             \* C17
StartsWithSlash == mode = "map" => Head(Map) = "/"                               \* C17: the upstream authority can never be extended
OneOutcome == mode = "relay" => Relay(sc).k \in {"relay", "43"}                  \* C18
RedirectNotFollowed == (mode = "relay" /\ sc.connect = "ok" /\ sc.crlf /\ sc.hdrCls = "ok" /\ sc.metaCls = "ok"
                          /\ sc.sendLen >= sc.hdrLen + 2 /\ sc.status \in 30..39) => Relay(sc).k = "relay" /\ Relay(sc).status = sc.status
MalformedIs43 == (mode = "relay" /\ (sc.metaCls # "ok" \/ sc.hdrCls # "ok")) => Relay(sc).k = "43"
=============================================================================
