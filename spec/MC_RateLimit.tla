---- MODULE MC_RateLimit ----
EXTENDS RateLimit
P(c, r, d) == [cap |-> c, r |-> r, d |-> d]
\* r/d tokens per 4-second tick:  1/1 = 0.25/s ; 1/2 = 0.125/s ; 1/256 = 1/1024 per s (capacity/rate = 2048 s > idle age)
MCParams == { P(1, 1, 1), P(2, 1, 2), P(2, 1, 256), P(3, 2, 1) }
RPParams == { P(2, 1, 2), P(2, 1, 256), P(2, 0, 1) }
====
