SPECIFICATION Spec
CONSTANTS
  AsBuiltVerbatimNames = TRUE
  DevParentLinkWrong = FALSE
INVARIANT OrdinaryNamesLead
INVARIANT ParentLinkLeads
CHECK_DEADLOCK FALSE
