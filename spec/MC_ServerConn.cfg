SPECIFICATION Spec
CONSTANTS
  MaxReq = 1024
  Streams <- MCStreams
  Chains <- MCChains
  HOutcomes <- MCH
  Uploads = {TRUE, FALSE}
  DataAfterClose = TRUE
  DevNoDispatchedFlag = FALSE
  DevTitanSkipsChain = FALSE
  DevSilentDeny = FALSE
  DevVerbatimRefusal = FALSE
  DevRawResponse = FALSE
INVARIANT TypeOK
INVARIANT OneResponse
INVARIANT WellFormed
INVARIANT NeverTorn
INVARIANT ThenClosed
INVARIANT GateC04
INVARIANT NoneBeyondRefusal
INVARIANT FirstRejectionWins
INVARIANT AtMostOnce
INVARIANT TimerWhileWaiting
INVARIANT AnsweredWhenQuiet
INVARIANT SegIndep
INVARIANT OnlyValidReachHandler
INVARIANT Progress
PROPERTY TimeoutHarmless
PROPERTY RefusalNotPreempted
PROPERTY TimeoutAnswers
CHECK_DEADLOCK FALSE
