---- MODULE MC_CertAuth ----
EXTENDS CertAuth
Ru(p, rq, f) == [prefix |-> p, require |-> rq, fps |-> f]
MCRules == { <<Ru(<<"app","public">>, FALSE, NoList), Ru(<<"app">>, TRUE, NoList), Ru(<<"admin">>, TRUE, List({"c1"}))>>,
             <<Ru(<<"app">>, TRUE, NoList)>>,
             <<Ru(<<"admin">>, TRUE, List({}))>>,
             <<Ru(<<"admin">>, FALSE, List({}))>>,
             <<Ru(<<"admin">>, FALSE, List({"c1"}))>>,
             <<Ru(<<>>, TRUE, NoList)>>,
             <<Ru(<<"app">>, TRUE, List({"c2"})), Ru(<<"app","public">>, FALSE, NoList)>>,
             <<Ru(<<"app","public">>, FALSE, NoList), Ru(<<>>, TRUE, List({"c1","c2"}))>>,
             <<Ru(<<"app">>, FALSE, NoList), Ru(<<>>, TRUE, NoList)>>,
             <<Ru(<<"app">>, TRUE, List({"c1"})), Ru(<<"app-x">>, TRUE, List({"c2"}))>>,
             \* rules for the location of an index file: what a request for the directory delivers
             <<Ru(<<"app","index.gmi">>, TRUE, List({"c1"})), Ru(<<"app">>, TRUE, NoList)>>,
             <<Ru(<<"index.gmi">>, TRUE, List({}))>>,
             <<Ru(<<"admin","index.gmi">>, TRUE, NoList)>>,
             <<>> }
====
