----------------------------- MODULE AclTrace -----------------------------
(* Code -> spec for C09: decisions of the real AccessControl (and of the chain the real start_server /
   ServerConfig.from_toml assemble) on random policies with several entries per list over a K-bit model
   space, embedded into real IPv4/IPv6 addresses by the driver.  Each case is judged by the property's
   own statement Admit(policy, address).
     case = [enabled, allowSet, allow: Seq of [fam, base, len], denySet, deny, default, addr: [fam, bits], admitted]  *)
EXTENDS Acl, Sequences, Json, IOUtils, TLCExt
Cases == JsonDeserialize(IOEnv.TRACE_FILE)
VARIABLES tid, l
ToSet(seq) == {seq[i] : i \in 1..Len(seq)}
PolOf(c) == [enabled |-> c.enabled, allowSet |-> c.allowSet, allow |-> ToSet(c.allow),
             denySet |-> c.denySet, deny |-> ToSet(c.deny), default |-> c.default]
TInit == tid \in 1..Len(Cases) /\ l = 1 /\ pol = PolOf(Cases[tid]) /\ addr = Cases[tid].addr /\ out = "pending"
TNext == l = 1 /\ l' = 2 /\ Eval /\ UNCHANGED tid
\* flags: <<model decision equals the observed one, property statement satisfied by the observed one>>
Observed == IF Cases[tid].admitted THEN "admit" ELSE "refuse53"
Flags == IF l = 1 THEN <<TRUE, TRUE>>
         ELSE << out = Observed,
                 (pol.enabled /\ ~Grey(pol)) => (Cases[tid].admitted = Admit(pol, addr)) >>
Report == PrintT(<<"REACHED", tid, l, 2, Flags>>)
=============================================================================
