---------------------------- MODULE Router ----------------------------
(* Location routing as configured by [[locations]] (ServerConfig.get_location_router + Router.route + the default
   404 handler that start_server installs).  Paths and prefixes are token sequences with "/" as a token, as in Proxy.
   TLC enumerates (ordered location list, request path) and evaluates once.  Covers C01's "every routing
   configuration (single root, locations with and without a catch-all)": whatever the configuration, exactly one handler
   answers, the first location whose prefix is a string prefix of the path; when none matches the answer is 51.      *)
EXTENDS Integers, Sequences, FiniteSets, TLC
CONSTANTS PathTokens, MaxLen, LocLists
Tok == PathTokens \cup {"/"}
Paths == UNION { { <<"/">> \o p : p \in [1..n -> Tok] } : n \in 0..(MaxLen - 1) }
VARIABLES locs, path, out
vars == <<locs, path, out>>
StartsWith(s, p) == Len(p) <= Len(s) /\ SubSeq(s, 1, Len(p)) = p
RECURSIVE FirstMatch(_, _)
FirstMatch(ls, i) == IF i > Len(ls) THEN 0 ELSE IF StartsWith(path, ls[i]) THEN i ELSE FirstMatch(ls, i + 1)
Init == locs \in LocLists /\ path \in Paths /\ out = -1
Eval == out = -1 /\ out' = FirstMatch(locs, 1) /\ UNCHANGED <<locs, path>>
Spec == Init /\ [][Eval]_vars
\* the chosen location matches and no earlier one does; 0 = no location: default 404 handler
FirstMatchWins == out > 0 => (StartsWith(path, locs[out]) /\ \A j \in 1..(out - 1) : ~StartsWith(path, locs[j]))
NoMatchIs404 == out = 0 => \A j \in 1..Len(locs) : ~StartsWith(path, locs[j])
CatchAllAlwaysAnswers == (\E j \in 1..Len(locs) : locs[j] = <<"/">>) => out # 0
=============================================================================
