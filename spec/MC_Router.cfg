SPECIFICATION Spec
CONSTANTS
  PathTokens = {"api", "v2", "docs", "x"}
  MaxLen = 5
  LocLists <- MCLocLists
INVARIANT FirstMatchWins
INVARIANT NoMatchIs404
INVARIANT CatchAllAlwaysAnswers
CHECK_DEADLOCK FALSE
