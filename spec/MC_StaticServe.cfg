SPECIFICATION Spec
CONSTANTS
  MaxSegs = 2
  SegAlphabet = {"", ".", "..", "a", "f", "g", "L1", "index.gmi", "root2", "x", "s p", "s%20p", "%2e%2e", "%66", "a%2ff", "..%2f"}
  DevIndexNotRechecked = FALSE
  DevNoPctDecode = FALSE
  DevLoopLexical = FALSE
  DevClimbAndReturn = FALSE
INVARIANT Safe
INVARIANT Reachable
CHECK_DEADLOCK FALSE
