---------------------------- MODULE Acl ----------------------------
(* IP access control (middleware.AccessControl) and its configuration layer
   (ServerConfig.get_access_control_config + start_server), over a K-bit address space
   per family.  Pure function: TLC enumerates (policy, address) and evaluates once.       *)
EXTENDS Naturals, FiniteSets, TLC
CONSTANTS K,                      \* bits per address in the model (3)
          MaxEntries,             \* entries per list
          DevNoneWhenListsEmpty,  \* current config layer: no lists => no access control at all
          DevEmptyAllowIsAbsent   \* deviation: "allow_list = []" is read as "no allow list" (everybody in, where nobody should be)
Fams == {4, 6}
RECURSIVE Pow2(_)
Pow2(n) == IF n = 0 THEN 1 ELSE 2 * Pow2(n - 1)
Addrs == [fam : Fams, bits : 0..(Pow2(K) - 1)]
Nets == { n \in [fam : Fams, base : 0..(Pow2(K) - 1), len : 0..K] : n.base % Pow2(K - n.len) = 0 }
Contains(n, a) == n.fam = a.fam /\ (a.bits \div Pow2(K - n.len)) = (n.base \div Pow2(K - n.len))
Lists == { S \in SUBSET Nets : Cardinality(S) <= MaxEntries }
\* a policy as written in the configuration file
Policies == [enabled : BOOLEAN, allowSet : BOOLEAN, allow : Lists, denySet : BOOLEAN, deny : Lists, default : BOOLEAN]
WellFormedPolicy(p) == (~p.allowSet => p.allow = {}) /\ (~p.denySet => p.deny = {})

\* ---- the property's statement ------------------------------------------------------
Admit(p, a) ==
  /\ \A n \in p.deny : ~Contains(n, a)
  /\ IF p.allowSet THEN \E n \in p.allow : Contains(n, a) ELSE p.default      \* a configured list that is empty contains nobody
Grey(p) == FALSE      \* ("allow_list = []" was left undecided until the third hunt: the statement says "no allow list is configured")
AdmitDev(p, a) == /\ \A n \in p.deny : ~Contains(n, a)
                  /\ IF p.allow # {} THEN \E n \in p.allow : Contains(n, a) ELSE p.default

\* ---- what the running server does ---------------------------------------------------
\* configuration layer: is an AccessControl component built at all?
Built(p) == p.enabled /\ (IF DevNoneWhenListsEmpty THEN (p.allow # {} \/ p.deny # {})
                                                    ELSE IF DevEmptyAllowIsAbsent THEN (p.allow # {} \/ p.deny # {} \/ ~p.default)
                                                    ELSE (p.allowSet \/ p.deny # {} \/ ~p.default))
Decision(p, a) == IF ~p.enabled THEN TRUE ELSE IF Built(p) THEN (IF DevEmptyAllowIsAbsent THEN AdmitDev(p, a) ELSE Admit(p, a)) ELSE TRUE

VARIABLES pol, addr, out
vars == <<pol, addr, out>>
Init == pol \in {p \in Policies : WellFormedPolicy(p)} /\ addr \in Addrs /\ out = "pending"
Eval == out = "pending" /\ out' = (IF Decision(pol, addr) THEN "admit" ELSE "refuse53") /\ UNCHANGED <<pol, addr>>
Spec == Init /\ [][Eval]_vars
AsConfigured == (out # "pending" /\ pol.enabled /\ ~Grey(pol)) => ((out = "admit") = Admit(pol, addr))
=============================================================================
