------------------------------ MODULE TitanLine ------------------------------
(* The Titan request line as the server reads it (protocol/request.py: TitanRequest.from_line, _parse_titan_params), for
   the Titan half of C08: "... or a titan:// URL with a well-formed non-negative size) with a host, no user-info and no
   fragment; every other request line is refused with status 59 ... and has no side effect".  A line is a record of
   KINDS (the driver owns the spellings); TLC enumerates the product and says what the grammar demands.

     size   how the mandatory size parameter is written           frag  where a fragment sits, if any
     user   user-info in the authority                            path  the path before the parameters           *)
EXTENDS Naturals, TLC
CONSTANT DevLenientInt       \* deviation (tree before its fix): the size is whatever int() can read; only the part before the
                             \* first ';' is looked at for user-info and fragment
Sizes == {"3", "0", "plus", "underscore", "spaces", "arabic", "fullwidth", "negzero", "neg", "alpha", "empty", "float", "missing", "hex", "nbsp", "nbspKey"}     \* nbsp: a Unicode blank (U+00A0, U+2003, U+3000) beside the digits / beside the key
Frags == {"none", "afterParams", "insideParams", "beforeParams"}
Users == {"none", "plain", "semicolon"}
Paths == {"plain", "empty", "pct"}
VARIABLES size, frag, user, path, out
vars == <<size, frag, user, path, out>>
Init == size \in Sizes /\ frag \in Frags /\ user \in Users /\ path \in Paths /\ out = "pending"
SizeOk(s) == s \in {"3", "0"}
\* what int() makes of the spellings (the deviation)
IntReads(s) == s \in {"3", "0", "plus", "underscore", "spaces", "arabic", "fullwidth", "negzero", "nbsp", "nbspKey"}
Valid == SizeOk(size) /\ frag = "none" /\ user = "none"
Eval == /\ out = "pending"
        /\ out' = IF DevLenientInt
                    THEN (IF IntReads(size) /\ frag # "beforeParams" /\ user # "plain" THEN "handler" ELSE "refused59")
                    ELSE (IF Valid THEN "handler" ELSE "refused59")
        /\ UNCHANGED <<size, frag, user, path>>
Spec == Init /\ [][Eval]_vars
\* C08: the upload handler (and the chain before it) only ever sees a valid line; a valid line is not refused
OnlyValidReachHandler == (out = "handler") => Valid
ValidNotRefused == (out = "refused59") => ~Valid
=============================================================================
