SPECIFICATION Spec
CONSTANTS
  IPs = {"a", "b", "d"}
  Denied = {"d"}
  Certs = {"c1", "c2"}
  Allowed = {"c1"}
  Paths = {"pub", "prot", "any", "missing"}
  Cap = 2
  R = 1
  D = 4
  Steps = {1, 4}
  MaxTime = 12
  MaxReq = 4
  DevRateFirst = FALSE
INVARIANT FirstRefusalWins
INVARIANT RefusedDoNotConsume
INVARIANT ServedOnlyIfAllAdmit
CHECK_DEADLOCK FALSE
