SPECIFICATION Spec
CONSTANTS
  DevLenientInt = FALSE
INVARIANT OnlyValidReachHandler
INVARIANT ValidNotRefused
CHECK_DEADLOCK FALSE
