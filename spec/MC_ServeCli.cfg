SPECIFICATION Spec
CONSTANTS
  AsBuiltOverridesUnvalidated = TRUE
  AsBuiltFlagYieldsToRules = TRUE
  AsBuiltRequireFlagCrashes = TRUE
  AsBuiltHashFlagShadowsFile = TRUE
  DevCliBeatsEnv = FALSE
  DevFileSecurityDropped = FALSE
INVARIANT Precedence
INVARIANT SecurityInForce
INVARIANT HashOnUnlessAsked
CHECK_DEADLOCK FALSE
